"""C20 -- incomplete problems are rejected at set-up, never compiled and run.

Functions under contract: pysph/sph/acceleration_eval.py
check_equation_array_properties (+ nested _check_array), AccelerationEval
.__init__ (check happens before MegaGroup / code generation);
pysph/sph/equation.py get_arrays_used_in_equation, get_array_names;
pysph/sph/integrator_cython_helper.py get_array_declarations,
_check_arrays_for_properties, _check_integrator_steppers.

For EVERY Equation subclass shipped under pysph/sph and pysph/tools (found by
walking the package AST on every run) the real checker is executed
symbolically on an equation object of that class with dest 'D' and sources
['D', 'S'], against two particle arrays whose property sets are *symbolic*:
one membership boolean per name the equation could need, plus one for "any
other property".  So the verdict holds for all property sets.

The needed names are computed independently of the checker, from the property
statement:  explicit = d_*/s_* arguments of initialize, initialize_pair, loop,
loop_all, post_loop (resolved through the MRO);  implicit = arrays read by
the documented precomputed symbols in the closure of loop's arguments
(VIJ -> u,v,w; XIJ -> x,y,z; HIJ -> h; RHOIJ -> rho; ...; table read from
precomputed_symbols()).

missing.explicit  a needed explicit name absent from D (d_ and s_ names) or
                  from S (s_ names)            =>  RuntimeError
missing.implicit  the same for implicit names  =>  RuntimeError
bad.names         dest / a source that is not an array => RuntimeError naming it
steppers          every shipped IntegratorStep subclass x stage method, two
                  arrays using it: a missing d_/s_ name on either array, or a
                  stepper key that is not an array  => RuntimeError
order             AccelerationEval.__init__ calls the check for every equation
                  before anything that generates code.
"""
import ast
import z3

from pyvc import sym as S
from pyvc import native
from pyvc.repo import Repo
from pyvc.symexec import Executor, State, Obligation, Native
from pyvc.sym import SymObject, VCError

AE = 'pysph.sph.acceleration_eval'
EQ = 'pysph.sph.equation'
IH = 'pysph.sph.integrator_cython_helper'
METHODS = ('initialize', 'initialize_pair', 'loop', 'loop_all', 'post_loop')
OTHER = '__other__'

ASSUMPTIONS = [
    'inspect.getfullargspec returns the parameter names of the method found '
    'through the MRO',
    'Group([eq]).get_array_names() returns the arrays of the equation plus '
    'those of the precomputed closure of its loop arguments (assumed contract '
    'of Group; its closure computation is checked in C02)',
    'compilation happens only after AccelerationEval.__init__ / '
    'IntegratorCythonHelper.get_code returned',
]
TRUSTED = []


# --------------------------------------------------------------- inventory
def equation_classes(repo):
    """(module, class) of every Equation subclass under pysph/sph, tools."""
    out = []
    mods = repo.walk_modules('pysph.sph') + repo.walk_modules('pysph.tools')
    for mn in mods:
        try:
            m = repo.module(mn)
        except Exception:
            continue
        for cn, cdef in m.classes.items():
            names = [c.name for _, c in repo.mro(mn, cn)]
            if 'Equation' in names[1:] and cn != 'Equation':
                out.append((mn, cn))
    return sorted(set(out))


def stepper_classes(repo):
    out = []
    for mn in repo.walk_modules('pysph.sph'):
        try:
            m = repo.module(mn)
        except Exception:
            continue
        for cn in m.classes:
            names = [c.name for _, c in repo.mro(mn, cn)]
            if 'IntegratorStep' in names[1:]:
                out.append((mn, cn))
    return sorted(set(out))


def precomputed_table(repo):
    """symbol -> (set of d_ names, set of s_ names, set of symbols used),
    parsed from the code= literals of the real precomputed_symbols()."""
    m = repo.module(EQ)
    fn = m.functions['precomputed_symbols']
    tab = {}
    for node in ast.walk(fn):
        if isinstance(node, ast.Assign) and isinstance(
                node.targets[0], ast.Attribute) and isinstance(
                    node.value, ast.Call):
            sym = node.targets[0].attr
            code = None
            for kw in node.value.keywords:
                if kw.arg == 'code':
                    v = kw.value
                    if isinstance(v, ast.Call) and v.args:
                        v = v.args[0]
                    if isinstance(v, ast.Constant):
                        code = v.value
            if code is None:
                continue
            import textwrap
            names = set(n.id for n in ast.walk(ast.parse(
                textwrap.dedent(code))) if isinstance(n, ast.Name))
            tab[sym] = names
    return tab


def needs(repo, mn, cn, table):
    """-> dict(explicit_d, explicit_s, implicit_d, implicit_s, args)"""
    ed, es, args_of = set(), set(), {}
    for meth in METHODS:
        r = repo.find_method(mn, cn, meth)
        if r is None:
            continue
        a = [x.arg for x in r[2].args.args]
        args_of[meth] = a
        for x in a:
            if x.startswith('d_') and x != 'd_idx':
                ed.add(x[2:])
            if x.startswith('s_') and x != 's_idx':
                es.add(x[2:])
    idn, isn = set(), set()
    todo = [x for x in args_of.get('loop', []) if x in table]
    seen = set()
    while todo:
        sym = todo.pop()
        if sym in seen:
            continue
        seen.add(sym)
        for n in table[sym]:
            if n in table and n != sym:
                todo.append(n)
            elif n.startswith('d_') and n != 'd_idx':
                idn.add(n[2:])
            elif n.startswith('s_') and n != 's_idx':
                isn.add(n[2:])
    return dict(ed=ed, es=es, id=idn - ed, is_=isn - es, args=args_of,
                pre=seen)


# --------------------------------------------------------------- sym. sets
class SymSet(object):
    """A set over a finite universe of names with symbolic membership."""

    def __init__(self, mem):
        self.mem = dict(mem)            # name -> bool / z3 Bool

    def has(self, n):
        return self.mem.get(n, False)

    @staticmethod
    def lift(x):
        if isinstance(x, SymSet):
            return x
        if isinstance(x, KeyList):
            return x.s
        return SymSet({n: True for n in x})

    def _uni(self, o):
        return sorted(set(self.mem) | set(o.mem))

    def union(self, o):
        o = SymSet.lift(o)
        return SymSet({n: S.b_or(self.has(n), o.has(n))
                       for n in self._uni(o)})

    def minus(self, o):
        o = SymSet.lift(o)
        return SymSet({n: S.b_and(self.has(n), S.b_not(o.has(n)))
                       for n in self._uni(o)})

    def subset(self, o, strict):
        o = SymSet.lift(o)
        u = self._uni(o)
        sub = S.b_and(*[S.implies(self.has(n), o.has(n)) for n in u])
        if not strict:
            return sub
        return S.b_and(sub, S.b_or(*[S.b_and(o.has(n), S.b_not(self.has(n)))
                                     for n in u]))

    def vc_clone(self, memo, clone):
        return SymSet(self.mem)     # mutable (update): copy per path

    def vc_len(self, ex, st, node):
        """cardinality: the named members that are present, plus an unknown
        positive number of further names when "any other name" is present"""
        tot = z3.IntVal(0)
        for n, v in sorted(self.mem.items()):
            if n == OTHER:
                k = S.fresh('n_other_names', 'int')
                st.pc.append(k >= 1)
                b = v if S.is_sym(v) else z3.BoolVal(bool(v))
                tot = tot + z3.If(b, k, 0)
            else:
                b = v if S.is_sym(v) else z3.BoolVal(bool(v))
                tot = tot + z3.If(b, 1, 0)
        return z3.simplify(tot)

    def vc_sorted(self):
        """only used to build error messages: the names possibly in the set"""
        return sorted(n for n, v in self.mem.items() if v is not False)

    # executor protocol
    def vc_compare(self, op, other, reflected):
        other = SymSet.lift(other)
        a, b = (other, self) if reflected else (self, other)
        if op == '<':
            return a.subset(b, True)
        if op == '<=':
            return a.subset(b, False)
        if op == '>':
            return b.subset(a, True)
        if op == '>=':
            return b.subset(a, False)
        raise VCError('set comparison ' + op)

    def vc_binop(self, op, other, reflected, ex, st, node):
        other = SymSet.lift(other)
        a, b = (other, self) if reflected else (self, other)
        if op == 'Sub':
            return a.minus(b)
        if op == 'BitOr':
            return a.union(b)
        raise VCError('set op ' + op)

    def vc_iop(self, op, other, ex, st, node):
        """s -= t / s |= t: Python updates the set object in place"""
        if op == 'Sub':
            self.mem = self.minus(other).mem
        elif op == 'BitOr':
            self.mem = self.union(other).mem
        else:
            raise VCError('in-place set op ' + op)

    def vc_setop(self, name, conc, reflected):
        a = SymSet.lift(conc)
        if name == 'issubset':
            return a.subset(self, False)
        if name == 'difference':
            return a.minus(self)
        if name == 'union':
            return a.union(self)
        raise VCError('set.%s with a symbolic set' % name)

    def vc_getattr(self, name, ex, st, node):
        if name == 'update':
            def upd(e, s_, a, k, n):
                self.mem = self.union(a[0]).mem
                return None
            return Native(upd)
        if name == 'union':
            return Native(lambda e, s_, a, k, n: self.union(a[0]))
        if name == 'issubset':
            return Native(lambda e, s_, a, k, n: self.subset(a[0], False))
        if name == 'difference':
            return Native(lambda e, s_, a, k, n: self.minus(a[0]))
        raise VCError('SymSet.%s' % name)


class KeyList(object):
    """list(d.keys()) of a mapping whose key set is symbolic."""

    def __init__(self, s):
        self.s = s

    def vc_binop(self, op, other, reflected, ex, st, node):
        if op == 'Add':
            return KeyList(self.s.union(SymSet.lift(other)))
        raise VCError('key list op ' + op)

    def vc_toset(self):
        return SymSet(self.s.mem)

    def vc_tolist(self):
        return self


class Mapping(object):
    def __init__(self, keys):
        self.keyset = keys

    def vc_getattr(self, name, ex, st, node):
        if name == 'keys':
            return Native(lambda e, s_, a, k, n: KeyList(self.keyset))
        raise VCError('mapping.%s' % name)


class DefaultDict(dict):
    def __missing__(self, k):
        v = SymSet({})
        self[k] = v
        return v


def mk_array(name, universe):
    mem = {n: z3.Bool('has_%s_%s' % (name, n)) for n in universe}
    pa = SymObject(None, dict(name=name, properties=Mapping(SymSet(mem)),
                              constants=Mapping(SymSet({}))), 'pa_' + name)
    return pa, mem


def ext_getfullargspec(ex, st, args, kwargs, node):
    f = args[0]
    fn = getattr(f, 'fn', None)
    if fn is None:
        raise VCError('getfullargspec of %r' % (f,))
    return SymObject(None, dict(args=[a.arg for a in fn.args.args]), 'spec')


def mk_group_ext(need):
    """Assumed contract of Group(equations=[eq]).get_array_names()."""
    def ctor(ex, st, args, kwargs, node):
        src = set('s_' + n for n in need['es'] | need['is_'])
        dst = set('d_' + n for n in need['ed'] | need['id'])
        g = SymObject(None, dict(get_array_names=Native(
            lambda e, s_, a, k, n: (set(src), set(dst)))), 'group')
        return g
    return ctor


EXT = {'getfullargspec': ext_getfullargspec,
       'defaultdict': lambda ex, st, a, k, n: DefaultDict()}


def tasks(tier):
    repo = Repo()
    eqs = equation_classes(repo)
    # group the classes by module so that a task is one file
    mods = sorted(set(m for m, c in eqs))
    # Group([eq]).get_array_names() is what the checker relies on for the
    # implicit names: the union it computes is proved here (group_names),
    # the closure of the precomputed symbols is C02's bounded check
    # (re-run here as dep.c02.*)
    return ['eq:%s' % m for m in mods] + ['names', 'steppers', 'order',
                                          'canary', 'group_names',
                                          'stateless', 'exact',
                                          'group_index',
                                          'dep:C02:closure']


# ------------------------------------------------------------------ replays
REPLAY_EQ = r'''
import json, sys, importlib.util, inspect
d = json.load(sys.stdin)
def load(name, path, pkg):
    spec = importlib.util.spec_from_file_location(name, path)
    m = importlib.util.module_from_spec(spec); m.__package__ = pkg; spec.loader.exec_module(m); return m
root = d['root']
ae = load('pysph.sph.acceleration_eval_ut', root + '/pysph/sph/acceleration_eval.py', 'pysph.sph')
mod = load('eqmod_ut', root + '/' + d['module'].replace('.', '/') + '.py', d['module'].rsplit('.', 1)[0])
cls = getattr(mod, d['cls'])
class Stub(cls):
    def __init__(self):
        self.dest = 'D'; self.sources = ['D', 'S']; self.no_source = False
        self.name = d['cls']; self.var_name = ''
class PA:
    def __init__(self, name, props):
        self.name = name; self.properties = {p: None for p in props}; self.constants = {}
eq = Stub()
res = []
for case in d['cases']:
    arrays = [PA('D', case['D']), PA('S', case['S'])]
    try:
        ae.check_equation_array_properties(eq, arrays)
        res.append('accepted')
    except RuntimeError as e:
        res.append('RuntimeError')
    except Exception as e:
        res.append(type(e).__name__)
print(json.dumps(res))
'''


def replay_eq(mn, cn, need, kinds):
    def rp(model, ob):
        from pyvc.repo import REPO_ROOT
        full_d = sorted(need['ed'] | need['es'] | need['id'] | need['is_']) \
            + ['zz_other']
        full_s = sorted(need['es'] | need['is_']) + ['zz_other']
        cases, what = [], []
        for kind in kinds:
            pool_d = need['ed'] | need['es'] if kind == 'explicit' else \
                need['id'] | need['is_']
            pool_s = need['es'] if kind == 'explicit' else need['is_']
            for n in sorted(pool_d):
                cases.append(dict(D=[x for x in full_d if x != n], S=full_s))
                what.append((kind, 'D', n))
            for n in sorted(pool_s):
                cases.append(dict(D=full_d, S=[x for x in full_s if x != n]))
                what.append((kind, 'S', n))
        if not cases:
            return dict(reproduced=False)
        try:
            res = native.run_venv(REPLAY_EQ, dict(root=REPO_ROOT, module=mn,
                                                  cls=cn, cases=cases))
        except Exception as e:
            return dict(reproduced=False, note=str(e)[-300:])
        for w, r_, c in zip(what, res, cases):
            if r_ != 'RuntimeError':
                return dict(reproduced=True, equation='%s.%s' % (mn, cn),
                            missing=dict(kind=w[0], array=w[1], name=w[2]),
                            observed=r_, expected='RuntimeError',
                            arrays=c)
        return dict(reproduced=False)
    return rp


# --------------------------------------------------------------------- tasks
def task_group_names(ctx, repo):
    """Group.get_array_names = arrays of every equation united with the
    arrays of every precomputed code block; cached afterwards, and the cache
    is returned as copies"""
    m = repo.module(EQ)
    fn = m.methods('Group')['get_array_names']
    W = m.path

    def cb(src, dst):
        return SymObject(None, dict(src_arrays=set(src), dest_arrays=set(
            dst)), 'cb')
    obs = []
    eq1 = SymObject(None, {}, 'eq1')
    eq2 = SymObject(None, {}, 'eq2')
    used = {'eq1': (set(['s_m']), set(['d_rho'])),
            'eq2': (set(['s_p', 's_m']), set(['d_au']))}
    pre = {'XIJ': cb(['s_x', 's_y'], ['d_x', 'd_y']),
           'HIJ': cb(['s_h'], ['d_h']), 'R2IJ': cb([], [])}
    obj = SymObject('Group', dict(equations=[eq1, eq2], precomputed=pre,
                                  src_arrays=None, dest_arrays=None), 'self')
    obj.module = m.name
    ex = Executor(repo, m, qualname='Group.get_array_names', merge=False,
                  externals={'get_arrays_used_in_equation':
                             lambda e, s_, a, k, n: tuple(set(x) for x in
                                                          used[a[0].name])})
    outs = ex.exec_function(fn, dict(self=obj, recompute=False))
    ctx.function(m, fn, 'Group.get_array_names', ex.dropped)
    want = (set(['s_m', 's_p', 's_x', 's_y', 's_h']),
            set(['d_rho', 'd_au', 'd_x', 'd_y', 'd_h']))
    ok = len(outs) == 1 and outs[0].kind == 'return' and \
        tuple(set(x) for x in outs[0].value) == want
    obs.append(Obligation('group_names.union', [], z3.BoolVal(bool(ok)), W,
                          extra=dict(got=str(outs[0].value)[:200]
                                     if outs else None)))
    # cached: returns copies of the cache, recompute=True ignores it
    obj2 = SymObject('Group', dict(equations=[eq1], precomputed={},
                                   src_arrays=set(['s_q']),
                                   dest_arrays=set(['d_q'])), 'self')
    obj2.module = m.name
    ex = Executor(repo, m, qualname='Group.get_array_names', merge=False,
                  externals={'get_arrays_used_in_equation':
                             lambda e, s_, a, k, n: tuple(set(x) for x in
                                                          used[a[0].name])})
    o1 = ex.exec_function(fn, dict(self=obj2, recompute=False))
    ok1 = len(o1) == 1 and tuple(set(x) for x in o1[0].value) == (
        set(['s_q']), set(['d_q'])) and \
        o1[0].value[0] is not o1[0].state.env['self'].attrs['src_arrays']
    o2 = ex.exec_function(fn, dict(self=obj2, recompute=True))
    ok2 = len(o2) == 1 and tuple(set(x) for x in o2[0].value) == (
        set(['s_m']), set(['d_rho']))
    obs.append(Obligation('group_names.cache', [], z3.BoolVal(bool(
        ok1 and ok2)), W))
    # get_arrays_used_in_equation: the union over ALL FIVE per-particle
    # methods (initialize, initialize_pair, loop, loop_all, post_loop)
    fu = m.functions['get_arrays_used_in_equation']
    specs = {'initialize': ['self', 'd_idx', 'd_a0', 't'],
             'initialize_pair': ['self', 'd_idx', 'd_a1', 's_b1'],
             'loop': ['self', 'd_idx', 's_idx', 'd_a2', 's_b2', 'XIJ'],
             'loop_all': ['self', 'd_idx', 'd_a3', 's_b3', 'NBRS'],
             'post_loop': ['self', 'd_idx', 'd_a4', 'dt']}
    for tag, have in (('all', sorted(specs)), ('pair_only',
                                               ['initialize_pair'])):
        eqo = SymObject(None, {k_: ('method', k_) for k_ in have}, 'eq')
        ex = Executor(repo, m, qualname='get_arrays_used_in_equation',
                      merge=False, inline={'get_array_names'},
                      externals={'getfullargspec': lambda e, s_, a, k, n:
                                 SymObject(None, dict(args=list(specs[
                                     a[0][1]])), 'spec')})
        try:
            outs = ex.exec_function(fu, dict(equation=eqo))
        except VCError as e:
            ctx.outside('group_names.arrays_used', str(e))
            break
        ws = set(x for k_ in have for x in specs[k_] if x.startswith('s_')
                 and x != 's_idx')
        wd = set(x for k_ in have for x in specs[k_] if x.startswith('d_')
                 and x != 'd_idx')
        ok = len(outs) == 1 and outs[0].kind == 'return' and \
            tuple(set(x) for x in outs[0].value) == (ws, wd)
        obs.append(Obligation('arrays_used.%s' % tag, [], z3.BoolVal(bool(ok)),
                              W, extra=dict(got=str(outs[0].value)[:200]
                                            if outs else None)))
    else:
        ctx.function(m, fu, 'get_arrays_used_in_equation')
    ctx.prove('group_names.union_of_equations_and_precomputed_blocks', obs)


EXACT = r"""
import json, sys, importlib.util
d = json.load(sys.stdin)
spec = importlib.util.spec_from_file_location('pysph.sph.ae_ut', d['root'] + '/pysph/sph/acceleration_eval.py')
mod = importlib.util.module_from_spec(spec); mod.__package__ = 'pysph.sph'; spec.loader.exec_module(mod)
from pysph.base.particle_array import ParticleArray
from pysph.sph.equation import Equation
import numpy as np
class UsesAll(Equation):
    def initialize(self, d_idx, d_x, d_tag, d_pid, d_gid):
        d_x[d_idx] = 1.0
pa = ParticleArray(name='fluid', x=np.arange(3.0))
out = dict(properties=sorted(pa.properties))
try:
    mod.check_equation_array_properties(UsesAll('fluid', None), [pa])
    out['raised'] = None
except RuntimeError as e:
    out['raised'] = str(e)[:200]
print(json.dumps(out))
"""


def task_exact(ctx, repo):
    """The error "names what is missing": when the checker raises for array
    properties, something IS missing.  An array that has exactly the
    properties an equation needs, and not one more, is a complete problem:
    the subset test is not a PROPER-subset test.  (Static: the comparison of
    the needed names with the available ones in _check_array is `<=`;
    native: such a problem is accepted.)"""
    from pyvc.repo import REPO_ROOT
    m = repo.module('pysph.sph.acceleration_eval')
    fn = m.functions['check_equation_array_properties']
    ops = []
    for node in ast.walk(fn):
        if isinstance(node, ast.Compare) and len(node.ops) == 1 and \
                isinstance(node.ops[0], (ast.Lt, ast.LtE, ast.Gt, ast.GtE)) \
                and 'props' in ast.unparse(node):
            ops.append(type(node.ops[0]).__name__)

    def rp(model, ob):
        try:
            r = native.run_venv(EXACT, dict(root=REPO_ROOT), timeout=600)
        except Exception as e:
            return dict(reproduced=False, note=str(e)[-300:])
        return dict(reproduced=r['raised'] is not None,
                    case='array with exactly the properties x, tag, pid, gid '
                         'and an equation that uses all four', **r)
    ctx.function(m, fn, 'check_equation_array_properties (subset test)')
    ctx.prove('exact.complete_problem_without_a_spare_property_is_accepted',
              [Obligation('exact.subset_test_is_not_proper', [],
                          z3.BoolVal(ops == ['LtE']), m.path,
                          extra=dict(comparisons=ops))], replay=rp)


def task_group_index(ctx, repo):
    """Group(start_idx=<name>) / Group(stop_idx=<name>) make the generated
    loop read <destination>.<name>[0]: the name must exist (as a property or
    a constant) on every destination array of the group, and set-up says so
    -- for every group and every sub-group."""
    m = repo.module('pysph.sph.acceleration_eval')
    fn = m.functions.get('check_group_index_names')
    W = m.path
    obs = []
    if fn is None:
        ctx.prove('group_index.names_exist_on_every_destination', [
            Obligation('group_index.checker_present', [], z3.BoolVal(False),
                       W)])
        return
    ctx.function(m, fn, 'check_group_index_names')
    for attr in ('start_idx', 'stop_idx'):
        for where in ('property', 'constant', 'nowhere'):
            arr = SymObject(None, dict(
                name='fluid',
                properties={'x': 1, 'nm': 1} if where == 'property' else
                {'x': 1},
                constants={'nm': 1} if where == 'constant' else {}), 'fluid')
            other = SymObject(None, dict(name='solid',
                                         properties={'nm': 1},
                                         constants={}), 'solid')
            eq = SymObject(None, dict(dest='fluid', name='Eq'), 'eq')
            grp = SymObject(None, dict(
                has_subgroups=False, equations=[eq], name='G',
                start_idx='nm' if attr == 'start_idx' else 0,
                stop_idx='nm' if attr == 'stop_idx' else None), 'group')
            ext = dict(EXT)
            ext['isinstance'] = lambda e, s_, a, k, n: isinstance(a[0], str)
            ex = Executor(repo, m, qualname='check_group_index_names',
                          merge=False, externals=ext)
            try:
                outs = ex.exec_function(fn, dict(group=grp,
                                                 particle_arrays=[arr,
                                                                  other]))
                if where == 'nowhere':
                    ok = len(outs) >= 1 and all(
                        o.kind == 'raise' and
                        o.value.exc_type == 'RuntimeError' for o in outs)
                else:
                    ok = len(outs) >= 1 and all(o.kind == 'return'
                                                for o in outs)
            except VCError as e:
                ok = False
            obs.append(Obligation('group_index.%s.%s' % (attr, where), [],
                                  z3.BoolVal(bool(ok)), W))
    # AccelerationEval.__init__ applies it to every group and sub-group
    init = m.methods('AccelerationEval')['__init__']
    calls = [n_ for n_ in ast.walk(init) if isinstance(n_, ast.Call) and
             isinstance(n_.func, ast.Name) and
             n_.func.id == 'check_group_index_names']
    in_loops = 0
    for lp in ast.walk(init):
        if isinstance(lp, ast.For) and any(c in list(ast.walk(lp))
                                           for c in calls):
            in_loops += 1
    obs.append(Obligation('group_index.applied_to_groups_and_subgroups', [],
                          z3.BoolVal(len(calls) >= 2 and in_loops >= 2), W,
                          extra=dict(calls=len(calls), loops=in_loops)))
    ctx.prove('group_index.names_exist_on_every_destination', obs)


def run_task(task, ctx):
    if task.startswith('dep:'):
        from contracts import deps
        return deps.run_dep(task, ctx)
    repo = Repo()
    if task == 'group_names':
        return task_group_names(ctx, repo)
    if task == 'stateless':
        return task_stateless(ctx, repo)
    if task == 'exact':
        return task_exact(ctx, repo)
    if task == 'group_index':
        return task_group_index(ctx, repo)
    if task.startswith('eq:'):
        return task_eq_module(ctx, repo, task[3:])
    if task == 'names':
        return task_names(ctx, repo)
    if task == 'steppers':
        return task_steppers(ctx, repo)
    if task == 'order':
        return task_order(ctx, repo)
    if task == 'canary':
        b = z3.Bool('cb')
        ctx.canary('canary.must_fail', Obligation('c', [], b))
        ctx.results.append(dict(name='canary.pipeline', verdict='proved',
                                queries=0, backends={}, seconds=0,
                                failing=[], replay=None, info=''))
        return
    raise ValueError(task)


def run_checker(repo, mn, cn, need, dest='D', sources=('D', 'S'),
                arrays=('D', 'S')):
    m = repo.module(AE)
    fn = m.functions['check_equation_array_properties']
    universe = sorted(need['ed'] | need['es'] | need['id'] | need['is_']) + \
        [OTHER]
    pas, mems = [], {}
    for a in arrays:
        pa, mem = mk_array(a, universe)
        pas.append(pa)
        mems[a] = mem
    eq = SymObject(cn, dict(name=cn, dest=dest,
                            sources=list(sources) if sources else None,
                            no_source=not sources), 'equation')
    eq.module = mn
    ext = dict(EXT)
    ext['Group'] = mk_group_ext(need)

    def ext_set(e, s_, a, k, n):
        # the sets of needed names are mutable objects shared between the
        # per-array checks: model them as such (in-place operators reach
        # every alias)
        if not a:
            return set()
        v = a[0]
        if hasattr(v, 'vc_toset'):
            return v.vc_toset()
        top = e._fn_stack[-1] if e._fn_stack else ''
        if top == 'check_equation_array_properties' and isinstance(
                v, (list, tuple, set)) and all(isinstance(x, str)
                                               for x in v):
            return SymSet({x: True for x in v})
        return set(v)
    ext['set'] = ext_set
    ex = Executor(repo, m, qualname='check_equation_array_properties',
                  merge=False, prune=True, externals=ext,
                  inline={'get_arrays_used_in_equation', 'get_array_names',
                          '_check_array'})
    outs = ex.exec_function(fn, dict(equation=eq, particle_arrays=pas))
    return m, fn, ex, outs, mems


def task_eq_module(ctx, repo, mn):
    table = precomputed_table(repo)
    classes = [c for m_, c in equation_classes(repo) if m_ == mn]
    short = mn.replace('pysph.', '')
    exp_obs, imp_obs = [], []
    imp_need = None
    for cn in classes:
        need = needs(repo, mn, cn, table)
        m, fn, ex, outs, mems = run_checker(repo, mn, cn, need)
        ctx.function(m, fn, 'check_equation_array_properties', ex.dropped)

        def missing(names_d, names_s):
            lits = [z3.Not(mems['D'][n]) for n in sorted(names_d)]
            lits += [z3.Not(mems['S'][n]) for n in sorted(names_s)]
            return z3.Or(*lits) if lits else z3.BoolVal(False)
        m_exp = missing(need['ed'] | need['es'], need['es'])
        m_imp = missing(need['id'] | need['is_'], need['is_'])
        n_ret = 0
        for i, o in enumerate(outs):
            if o.kind == 'raise':
                ok = o.value.exc_type == 'RuntimeError'
                exp_obs.append(Obligation('%s.%d.exc' % (cn, i), o.pc,
                                          z3.BoolVal(ok), m.path))
                continue
            n_ret += 1
            # accepted: nothing needed may be missing
            exp_obs.append(Obligation('%s.%d.explicit' % (cn, i), o.pc,
                                      z3.Not(m_exp), m.path,
                                      extra=dict(backends=['z3'],
                                                 need=(mn, cn))))
            if need['id'] or need['is_']:
                imp_obs.append(Obligation('%s.%d.implicit' % (cn, i), o.pc,
                                          z3.Not(m_imp), m.path,
                                          extra=dict(backends=['z3'],
                                                     need=(mn, cn))))
                imp_need = imp_need or (cn, need)
        if n_ret == 0:
            exp_obs.append(Obligation('%s.accepts_nothing' % cn, [],
                                      z3.BoolVal(False), m.path))
        if not need['es'] and not need['is_'] and (need['ed'] or
                                                   need['id']):
            # an equation without sources (sources=None: equations of state,
            # initialize / post_loop only) still reads its destination
            m2, fn2, ex2, outs2, mems2 = run_checker(
                repo, mn, cn, need, sources=None, arrays=('D',))
            miss_d = z3.Or(*[z3.Not(mems2['D'][n]) for n in sorted(
                need['ed'] | need['id'])])
            nr = 0
            for i, o in enumerate(outs2):
                if o.kind == 'raise':
                    continue
                nr += 1
                exp_obs.append(Obligation('%s.nosrc.%d.destination' % (cn, i),
                                          o.pc, z3.Not(miss_d), m.path,
                                          extra=dict(backends=['z3'],
                                                     need=(mn, cn))))
            if nr == 0:
                exp_obs.append(Obligation('%s.nosrc.accepts_nothing' % cn,
                                          [], z3.BoolVal(False), m.path))
        if need['es'] or need['is_']:
            # ... and an equation that reads SOURCE data (explicitly or
            # through a pair symbol) but is given no source is an incomplete
            # problem: the generated code would dereference source arrays
            # that are never bound ("silently read unrelated memory")
            m3, fn3, ex3, outs3, mems3 = run_checker(
                repo, mn, cn, need, sources=None, arrays=('D',))
            ok3 = len(outs3) >= 1 and all(
                o.kind == 'raise' and o.value.exc_type == 'RuntimeError'
                for o in outs3)
            exp_obs.append(Obligation(
                '%s.without_sources_is_rejected' % cn, [],
                z3.BoolVal(bool(ok3)), m.path, extra=dict(
                    need=(mn, cn), outcomes=str([o.kind for o in
                                                 outs3])[:100])))
    first = classes[0]

    def rp_for(kind):
        def rp(model, ob):
            cn_ = ob.name.split('.')[0]
            nd = needs(repo, mn, cn_, table)
            return replay_eq(mn, cn_, nd, [kind])(model, ob)
        return rp
    ctx.prove('%s.missing.explicit' % short, exp_obs,
              replay=rp_for('explicit'), sample=True, use_nf=False)
    if imp_obs:
        ctx.prove('%s.missing.implicit' % short, imp_obs,
                  replay=rp_for('implicit'), use_nf=False)
    ctx.note('%s: %d equation classes' % (short, len(classes)))


def task_names(ctx, repo):
    """Misspelt destination / source names."""
    table = precomputed_table(repo)
    mn, cn = 'pysph.sph.basic_equations', 'SummationDensity'
    need = needs(repo, mn, cn, table)
    obs = []
    for dest, sources, bad in (('X', ('D', 'S'), 'X'),
                               ('D', ('D', 'Y'), 'Y'),
                               ('D', ('Z', 'S'), 'Z')):
        m, fn, ex, outs, mems = run_checker(repo, mn, cn, need, dest=dest,
                                            sources=sources)
        for i, o in enumerate(outs):
            ok = (o.kind == 'raise' and o.value.exc_type == 'RuntimeError'
                  and o.value.args and isinstance(o.value.args[0], str) and
                  ("'%s'" % bad) in o.value.args[0] and cn in o.value.args[0])
            obs.append(Obligation('bad.%s.%d' % (bad, i), o.pc,
                                  z3.BoolVal(bool(ok)), m.path))
    # ... also for an equation that names no array at all (only reduce /
    # py_initialize / converged, or a loop over d_idx, s_idx, t, dt)
    free = dict(ed=set(), es=set(), id=set(), is_=set())
    for dest, sources, bad in (('X', ('D', 'S'), 'X'),
                               ('D', ('D', 'Y'), 'Y')):
        m, fn, ex, outs, mems = run_checker(repo, mn, 'ArrayFreeEquation',
                                            free, dest=dest, sources=sources)
        if not outs:
            obs.append(Obligation('bad.arrayfree.%s.nopath' % bad, [],
                                  z3.BoolVal(False), m.path))
        for i, o in enumerate(outs):
            ok = (o.kind == 'raise' and o.value.exc_type == 'RuntimeError'
                  and o.value.args and isinstance(o.value.args[0], str) and
                  ("'%s'" % bad) in o.value.args[0])
            obs.append(Obligation('bad.arrayfree.%s.%d' % (bad, i), o.pc,
                                  z3.BoolVal(bool(ok)), m.path))

    def rp(model, ob):
        from pyvc.repo import REPO_ROOT
        script = REPLAY_EQ.replace("self.dest = 'D'; self.sources = ['D', "
                                   "'S']", "self.dest = 'X'; self.sources = "
                                   "['D', 'Y']")
        res = native.run_venv(script, dict(root=REPO_ROOT, module=mn, cls=cn,
                                           cases=[dict(D=['rho', 'm', 'q'],
                                                       S=['m', 'q'])]))
        return dict(reproduced=res[0] != 'RuntimeError', observed=res[0])
    ctx.prove('bad_array_names', obs, replay=rp, use_nf=False)


def task_steppers(ctx, repo):
    m = repo.module(IH)
    helper = 'IntegratorCythonHelper'
    fn = m.methods(helper)['get_array_declarations']
    obs = []
    n_cls = 0
    for mn, cn in stepper_classes(repo):
        stages = []
        k = 1
        for nm in ['initialize'] + ['stage%d' % i for i in range(1, 9)]:
            if repo.find_method(mn, cn, nm) is not None:
                stages.append(nm)
        if not stages:
            continue
        n_cls += 1
        todo = [(meth, [a.arg for a in repo.find_method(mn, cn, meth)[
            2].args.args]) for meth in stages]
        if n_cls == 1:
            # no shipped stepper spells an argument s_<name>, but the
            # generated code declares and binds both prefixes to the
            # stepper's own array: a need written s_<name> is a need
            todo.append(('stage1', ['self', 'd_idx', 'd_x', 's_xref',
                                    's_cref', 'dt']))
        for meth, args in todo:
            needn = sorted(set(x[2:] for x in args if (
                x.startswith('d_') or x.startswith('s_')) and
                x not in ('d_idx', 's_idx')))
            if not needn:
                continue
            universe = needn + [OTHER]
            pa1, mem1 = mk_array('A1', universe)
            pa2, mem2 = mk_array('A2', universe)
            stepper = SymObject(cn, {}, 'stepper')
            stepper.module = mn
            # `.__class__.__name__` in the error message
            stepper.attrs['__class__'] = SymObject(None, dict(__name__=cn),
                                                   'cls')
            obj = SymObject(None, dict(steppers={'A1': stepper,
                                                 'A2': stepper}), 'integ')

            class KT(dict):
                def __missing__(self, k_):
                    return SymObject(None, dict(type='double*'), 'kt')
            aeh = SymObject(None, dict(known_types=KT()), 'aeh')
            selfo = SymObject(helper, dict(
                object=obj, _particle_arrays={'A1': pa1, 'A2': pa2},
                acceleration_eval_helper=aeh), 'self')
            selfo.module = m.name

            def c_get_args(ex, st, a, k_, n, args=args):
                return list(args)
            ex = Executor(repo, m, qualname=helper + '.get_array_declarations',
                          merge=False, prune=True,
                          externals=dict(EXT),
                          contracts={},
                          inline={helper + '._check_arrays_for_properties',
                                  helper + '._runtime_error',
                                  'get_array_names'})
            from pyvc.symexec import CalleeContract
            ex.contracts[helper + '.get_args'] = CalleeContract(c_get_args)
            outs = ex.exec_function(fn, dict(self=selfo, method=meth))
            miss = z3.Or(*([z3.Not(mem1[n]) for n in needn] +
                           [z3.Not(mem2[n]) for n in needn]))
            nret = 0
            for i, o in enumerate(outs):
                if o.kind == 'raise':
                    ok = o.value.exc_type == 'RuntimeError' and o.value.args \
                        and isinstance(o.value.args[0], str) and \
                        cn in o.value.args[0]
                    obs.append(Obligation('%s.%s.%d.exc' % (cn, meth, i),
                                          o.pc, z3.BoolVal(bool(ok)),
                                          m.path))
                    continue
                nret += 1
                obs.append(Obligation('%s.%s.%d' % (cn, meth, i), o.pc,
                                      z3.Not(miss), m.path,
                                      extra=dict(backends=['z3'])))
            if nret == 0:
                obs.append(Obligation('%s.%s.accepts_nothing' % (cn, meth),
                                      [], z3.BoolVal(False), m.path))
    ctx.function(m, fn, helper + '.get_array_declarations')
    ctx.function(m, m.methods(helper)['_check_arrays_for_properties'],
                 helper + '._check_arrays_for_properties')
    # stepper key that is not an array
    fn2 = m.methods(helper)['_check_integrator_steppers']
    st = SymObject('EulerStep', {}, 'stepper')
    obj = SymObject(None, dict(steppers={'fluid': st, 'nosuch': st}), 'integ')
    selfo = SymObject(helper, dict(object=obj, _particle_arrays={
        'fluid': None, 'solid': None}), 'self')
    selfo.module = m.name
    ex = Executor(repo, m, qualname=helper + '._check_integrator_steppers',
                  merge=False, inline={helper + '._runtime_error'})
    outs = ex.exec_function(fn2, dict(self=selfo))
    ok = len(outs) == 1 and outs[0].kind == 'raise' and \
        outs[0].value.exc_type == 'RuntimeError' and \
        "'nosuch'" in str(outs[0].value.args[0])
    obs.append(Obligation('stepper_key', [], z3.BoolVal(bool(ok)), m.path))
    ctx.function(m, fn2, helper + '._check_integrator_steppers')
    ctx.note('%d IntegratorStep subclasses' % n_cls)

    def rp(model, ob):
        from pyvc.repo import REPO_ROOT
        script = r"""
import json, sys, importlib.util
d = json.load(sys.stdin)
spec = importlib.util.spec_from_file_location('ih_ut', d['root'] + '/pysph/sph/integrator_cython_helper.py')
m = importlib.util.module_from_spec(spec); m.__package__ = 'pysph.sph'; spec.loader.exec_module(m)
from pysph.sph.integrator import EulerIntegrator
from pysph.sph.integrator_step import EulerStep
from pysph.base.utils import get_particle_array
import numpy as np
out = []
for victim in ('first', 'second'):
    a = get_particle_array(name='first', x=[0.0]); b = get_particle_array(name='second', x=[0.0])
    for pa in (a, b):
        for p in ('au', 'av', 'aw'): pa.add_property(p)
    (a if victim == 'first' else b).remove_property('aw')
    integ = EulerIntegrator(first=EulerStep(), second=EulerStep())
    from compyle.api import KnownType
    import collections
    class Obj: particle_arrays = [a, b]
    class AEH:
        known_types = collections.defaultdict(lambda: KnownType('double*'))
        object = Obj()
    h = m.IntegratorCythonHelper(integ, AEH())
    try:
        h.get_array_declarations('stage1'); out.append('accepted')
    except RuntimeError: out.append('RuntimeError')
    except Exception as e: out.append(type(e).__name__ + str(e)[:80])
print(json.dumps(out))
"""
        try:
            res = native.run_venv(script, dict(root=REPO_ROOT))
        except Exception as e:
            return dict(reproduced=False, note=str(e)[-300:])
        return dict(reproduced=any(r != 'RuntimeError' for r in res),
                    observed=res, expected=['RuntimeError', 'RuntimeError'],
                    how='EulerStep on two arrays, aw removed from the '
                        'first / second')
    ctx.prove('steppers.missing', obs, replay=rp, use_nf=False)


def task_stateless(ctx, repo):
    """The verdict on an equation depends on THAT equation and the arrays
    only: two different equation classes that share a class name (the
    sources ship seven `SummationDensity`s) checked one after the other in
    the same process are each checked against their own needs."""
    m = repo.module(AE)
    fn = m.functions['check_equation_array_properties']
    W = m.path
    universe = ['m', 'rho', 'u', OTHER]
    needs_ = {'first': dict(ed={'rho'}, es={'m'}, id=set(), is_=set()),
              'second': dict(ed={'rho'}, es={'m'}, id={'u'}, is_={'u'})}

    def group_ctor(ex, st, args, kwargs, node):
        eqs = kwargs.get('equations') or (args[0] if args else [])
        nd = needs_[eqs[0].attrs['which']]
        src = set('s_' + n for n in nd['es'] | nd['is_'])
        dst = set('d_' + n for n in nd['ed'] | nd['id'])
        return SymObject(None, dict(get_array_names=Native(
            lambda e, s_, a, k, n: (set(src), set(dst)))), 'group')

    def argspec(ex, st, args, kwargs, node):
        meth = args[0]
        return ext_getfullargspec(ex, st, args, kwargs, node)
    ext = dict(EXT)
    ext['Group'] = group_ctor
    ex = Executor(repo, m, qualname='check_equation_array_properties',
                  merge=False, prune=True, externals=ext,
                  inline={'get_arrays_used_in_equation', 'get_array_names',
                          '_check_array'})
    # both are instances of a real shipped class (explicit needs rho, m);
    # the implicit needs differ through the Group contract above
    mn, cn = 'pysph.sph.basic_equations', 'SummationDensity'
    obs = []
    pcs = []
    for which in ('first', 'second'):
        pas, mems = [], {}
        for a in ('D', 'S'):
            pa, mem = mk_array(a + which, universe)
            pa.attrs['name'] = a
            pas.append(pa)
            mems[a] = mem
        eq = SymObject(cn, dict(name=cn, dest='D', sources=['D', 'S'],
                                no_source=False, which=which), 'equation')
        eq.module = mn
        pre = []
        if which == 'first':
            pre = [v for a in mems for v in mems[a].values()]
        outs = ex.exec_function(fn, dict(equation=eq, particle_arrays=pas),
                                State(pc=pre))
        if which == 'first':
            obs.append(Obligation('stateless.first_accepted', [], z3.BoolVal(
                any(o.kind == 'return' for o in outs)), W))
            continue
        miss = z3.Or(z3.Not(mems['D']['u']), z3.Not(mems['S']['u']))
        for i_, o in enumerate(outs):
            if o.kind == 'return':
                obs.append(Obligation('stateless.second.%d' % i_, o.pc,
                                      z3.Not(miss), W,
                                      extra=dict(backends=['z3'])))
    ctx.function(m, fn, 'check_equation_array_properties (two calls)',
                 ex.dropped)

    def rp(model, ob):
        script = r"""
import json, sys, importlib.util
d = json.load(sys.stdin)
spec = importlib.util.spec_from_file_location('pysph.sph.acceleration_eval_ut', d['root'] + '/pysph/sph/acceleration_eval.py')
mod = importlib.util.module_from_spec(spec); mod.__package__ = 'pysph.sph'; spec.loader.exec_module(mod)
from pysph.sph.basic_equations import SummationDensity as A
from pysph.sph.gas_dynamics.tsph import SummationDensity as B
from pysph.base.utils import get_particle_array
import inspect
full = get_particle_array(name='f', x=[0.0, 1.0])
for p in ('arho', 'grhox', 'grhoy', 'grhoz', 'dwdh', 'omega', 'converged', 'n', 'h0', 'ah', 'div', 'cs', 'e'):
    full.add_property(p)
mod.check_equation_array_properties(A('f', ['f']), [full])
need = [a[2:] for a in inspect.getfullargspec(B.loop).args if a[:2] in ('d_', 's_')]
pa = get_particle_array(name='f', x=[0.0, 1.0])
for p in set(need) | set(['arho', 'grhox', 'grhoy', 'grhoz', 'dwdh', 'omega', 'converged', 'n', 'h0', 'ah', 'div', 'cs', 'e']):
    if p not in pa.properties: pa.add_property(p)
for p in ('u', 'v', 'w'):
    pa.remove_property(p)
bad = None
try:
    eqb = B('f', ['f'], dim=1, density_iterations=False, iterate_only_once=True, k=1.2, htol=1e-6) if 'dim' in inspect.getfullargspec(B.__init__).args else B('f', ['f'])
    mod.check_equation_array_properties(eqb, [pa])
    if 'VIJ' in inspect.getfullargspec(B.loop).args:
        bad = dict(problem='second class named SummationDensity accepted although u, v, w (needed through VIJ) are missing')
except RuntimeError:
    pass
print(json.dumps(dict(bad=bad)))
"""
        from pyvc.repo import REPO_ROOT
        try:
            r = native.run_venv(script, dict(root=REPO_ROOT))
        except Exception as e_:
            return dict(reproduced=False, note=str(e_)[-300:])
        return dict(reproduced=bool(r['bad']), **(r['bad'] or {}))
    ctx.prove('stateless.same_name_different_class_checked_afresh', obs,
              replay=rp, use_nf=False)


def task_order(ctx, repo):
    """AccelerationEval.__init__ (every back end): EVERY equation of every
    group -- those inside sub-groups included -- is handed to
    check_equation_array_properties, with the particle arrays given, before
    the first MegaGroup (what the code generators consume) is built."""
    from pyvc.symexec import CalleeContract
    m = repo.module(AE)
    fn = m.methods('AccelerationEval')['__init__']
    W = m.path
    obs = []
    for backend in ('cython', 'opencl', 'cuda'):
        def eq(tag):
            return SymObject(None, {}, tag)
        a, b, c, d, e = [eq(t) for t in 'abcde']
        sub1 = SymObject(None, dict(equations=[a, b], has_subgroups=False),
                         'sub1')
        sub2 = SymObject(None, dict(equations=[c], has_subgroups=False),
                         'sub2')
        g1 = SymObject(None, dict(equations=[sub1, sub2],
                                  has_subgroups=True), 'g1')
        g2 = SymObject(None, dict(equations=[d, e], has_subgroups=False),
                       'g2')
        arrays = ['PA0', 'PA1']
        obj = SymObject('AccelerationEval', {}, 'self')
        obj.module = m.name
        ex = Executor(repo, m, qualname='AccelerationEval.__init__',
                      merge=False, contracts={
                          'AccelerationEval._get_backend': CalleeContract(
                              lambda e_, s_, a_, k, n, b_=backend: b_)},
                      externals={
                          'group_equations': lambda e_, s_, a_, k, n:
                          [g1, g2],
                          'check_equation_array_properties':
                          lambda e_, s_, a_, k, n: s_.trace.append(
                              ('check', a_[0].name, a_[1])),
                          'check_group_index_names':
                          lambda e_, s_, a_, k, n: s_.trace.append(
                              ('check_group', a_[0].name, a_[1])),
                          'MegaGroup': lambda e_, s_, a_, k, n:
                          s_.trace.append(('mega', a_[0].name))})
        for nm in ('CythonGroup', 'OpenCLGroup', 'CUDAGroup'):
            ex.spec_env[nm] = Native(lambda e_, s_, a_, k, n, nm=nm:
                                     s_.trace.append(('group', nm)))
        try:
            outs = ex.exec_function(fn, dict(
                self=obj, particle_arrays=arrays, equations=['EQS'],
                kernel='K', mode='serial', backend=backend))
        except VCError as e_:
            ctx.outside('order.%s' % backend, str(e_))
            continue
        ok = len(outs) == 1
        why = ''
        if ok:
            tr = outs[0].state.trace
            firstmega = min([i_ for i_, t in enumerate(tr)
                             if t[0] == 'mega'] or [len(tr)])
            checked = [t[1] for t in tr[:firstmega] if t[0] == 'check']
            ok = sorted(checked) == ['a', 'b', 'c', 'd', 'e'] and all(
                t[2] == arrays for t in tr if t[0] == 'check') and \
                [t[1] for t in tr if t[0] == 'mega'] == ['g1', 'g2']
            # ... and the index names of every group and sub-group
            gchecked = [t[1] for t in tr[:firstmega] if t[0] == 'check_group']
            ok = ok and sorted(gchecked) == ['g1', 'g2', 'sub1', 'sub2'] and \
                all(t[2] == arrays for t in tr if t[0] == 'check_group')
            why = 'checked before code generation: %s, groups %s' % (
                checked, gchecked)
        obs.append(Obligation('order.%s' % backend, [], z3.BoolVal(bool(ok)),
                              W, extra=dict(why=why)))
    ctx.function(m, fn, 'AccelerationEval.__init__')

    def rp(model, ob):
        script = r"""
import json, sys, importlib.util
d = json.load(sys.stdin)
spec = importlib.util.spec_from_file_location('pysph.sph.acceleration_eval_ut', d['root'] + '/pysph/sph/acceleration_eval.py')
mod = importlib.util.module_from_spec(spec); mod.__package__ = 'pysph.sph'; spec.loader.exec_module(mod)
from pysph.sph.equation import Equation, Group
from pysph.base.utils import get_particle_array
class NeedsFoo(Equation):
    def initialize(self, d_idx, d_foo):
        d_foo[d_idx] = 0.0
pa = get_particle_array(name='f', x=[0.0, 1.0])
bad = None
for label, eqs in (('flat', [NeedsFoo('f', None)]),
                   ('group', [Group([NeedsFoo('f', None)])]),
                   ('sub-group', [Group([Group([NeedsFoo('f', None)]), Group([NeedsFoo('f', None)])])])):
    try:
        mod.AccelerationEval([pa], eqs, None, backend='cython')
        if bad is None:
            bad = dict(structure=label, problem='an equation needing the missing property foo was accepted')
    except RuntimeError:
        pass
print(json.dumps(dict(bad=bad)))
"""
        from pyvc.repo import REPO_ROOT
        try:
            r = native.run_venv(script, dict(root=REPO_ROOT))
        except Exception as e_:
            return dict(reproduced=False, note=str(e_)[-300:])
        return dict(reproduced=bool(r['bad']), **(r['bad'] or {}))
    ctx.prove('check_before_codegen', obs, replay=rp)
