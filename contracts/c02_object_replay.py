"""Side observations for property C02 on the UNCHANGED tree.

Usage:  /venv/bin/python repro.py <tree-root>

Three independent checks; each builds a compiled AccelerationEval from the
pure-Python sources under <tree-root> (compiled extensions come from the
installed pysph) and compares with what the Python equation methods give.
Exit status is non-zero if at least one check misbehaves.

 A. instance attributes: two instances of the SAME equation class, one with
    alpha=0.5 and a later one with alpha=1 (a Python int).  The attribute
    type of the generated wrapper class is inferred from the LAST instance
    only (CythonGroup.get_equation_wrappers: `eqs[cls] = equation`), so it is
    declared `long alpha` and the first instance's 0.5 is silently truncated
    to 0.

 B. two DIFFERENT equation classes that have the same __name__ (pysph/sph
    itself ships 33 such clashing names, e.g. ContinuityEquation in
    basic_equations and in wc.transport_velocity): wrappers are keyed by class
    *name* (`eqs[cls] = equation` with cls = __class__.__name__), only one
    wrapper class is generated and BOTH equations run the code of the last
    one.  With equal method signatures this is silent (different signatures
    give a Cython compile error instead).

 C. shipped pysph.sph.isph.isph.CheckDensityError: py_initialize() stores
    self.conv on the Python instance, converged() is evaluated on the
    compiled copy whose `conv` stays at its initial 0, so an iterated group
    never sees convergence and always runs max_iterations times.
"""
import importlib.abc
import importlib.util
import os
import sys

root = os.path.abspath(sys.argv[1])


class TreeFinder(importlib.abc.MetaPathFinder):
    def find_spec(self, name, path, target=None):
        if not name.startswith('pysph.'):
            return None
        f = os.path.join(root, *name.split('.')) + '.py'
        if os.path.isfile(f):
            return importlib.util.spec_from_file_location(name, f)
        return None


sys.meta_path.insert(0, TreeFinder())

import numpy as np  # noqa: E402
from pysph.base.utils import get_particle_array  # noqa: E402
from pysph.base.kernels import CubicSpline  # noqa: E402
from pysph.base.nnps import LinkedListNNPS  # noqa: E402
from pysph.sph.equation import Equation, Group  # noqa: E402
from pysph.sph.acceleration_eval import AccelerationEval  # noqa: E402
from pysph.sph.sph_compiler import SPHCompiler  # noqa: E402
import pysph.sph.equation as _eqmod  # noqa: E402

assert _eqmod.__file__.startswith(root), _eqmod.__file__


def evaluate(arrays, equations, dim=1, t=0.0, dt=0.1):
    kernel = CubicSpline(dim=dim)
    a_eval = AccelerationEval(arrays, equations, kernel)
    SPHCompiler(a_eval, None).compile()
    nnps = LinkedListNNPS(dim=dim, particles=arrays)
    nnps.update()
    a_eval.set_nnps(nnps)
    a_eval.compute(t, dt)
    return kernel


# -- A ----------------------------------------------------------------------
class Seed8AddAlpha(Equation):
    def __init__(self, dest, sources, alpha=1.0):
        self.alpha = alpha
        super(Seed8AddAlpha, self).__init__(dest, sources)

    def initialize(self, d_idx, d_rho):
        d_rho[d_idx] += self.alpha


def check_a():
    f = get_particle_array(name='f', x=np.linspace(0, 1, 5), h=0.15, rho=0.0)
    eqs = [Group([Seed8AddAlpha('f', None, alpha=0.5)]),
           Group([Seed8AddAlpha('f', None, alpha=1)])]
    # Python execution.
    expect = np.zeros(5)
    for g in eqs:
        for eq in g.equations:
            for i in range(5):
                eq.initialize(i, expect)
    evaluate([f], eqs)
    ok = np.allclose(f.rho, expect)
    print('A: python', expect, 'compiled', f.rho, '->',
          'agree' if ok else 'MISMATCH')
    return ok


# -- B ----------------------------------------------------------------------
def _scheme_one():
    class Seed8Source(Equation):
        def initialize(self, d_idx, d_rho):
            d_rho[d_idx] += 1.0
    return Seed8Source


def _scheme_two():
    class Seed8Source(Equation):
        def initialize(self, d_idx, d_rho):
            d_rho[d_idx] += 10.0
    return Seed8Source


def check_b():
    one, two = _scheme_one(), _scheme_two()
    assert one is not two and one.__name__ == two.__name__
    f = get_particle_array(name='f', x=np.linspace(0, 1, 5), h=0.15, rho=0.0)
    eqs = [Group([one('f', None)]), Group([two('f', None)])]
    expect = np.zeros(5)
    for g in eqs:
        for eq in g.equations:
            for i in range(5):
                eq.initialize(i, expect)
    evaluate([f], eqs)
    ok = np.allclose(f.rho, expect)
    print('B: python', expect, 'compiled', f.rho, '->',
          'agree' if ok else 'MISMATCH')
    return ok


# -- C ----------------------------------------------------------------------
class Seed8Count(Equation):
    def initialize(self, d_idx, d_cnt):
        d_cnt[d_idx] += 1.0


def check_c():
    from pysph.sph.isph.isph import CheckDensityError
    f = get_particle_array(name='f', x=np.linspace(0, 1, 5), h=0.15, rho=1.0)
    f.add_property('cnt')
    # rho == rho0 everywhere: py_initialize sets conv = 1 on its first call,
    # so converged() of the Python equation is positive after one pass.
    eqs = [Group([Seed8Count('f', None),
                  CheckDensityError('f', None, rho0=1.0, tol=0.01)],
                 iterate=True, max_iterations=5, min_iterations=1)]
    # Python execution of the iteration.
    p = CheckDensityError('f', None, rho0=1.0, tol=0.01)
    count = 0
    for it in range(1, 6):
        p.py_initialize(f, 0.0, 0.1)
        count += 1
        if p.converged() > 0:
            break
    evaluate([f], eqs)
    ok = np.allclose(f.cnt, count)
    print('C: python passes', count, ' compiled passes', f.cnt[0], '->',
          'agree' if ok else 'MISMATCH')
    return ok


def main():
    which = sys.argv[2:] or ['A', 'B', 'C']
    checks = {'A': check_a, 'B': check_b, 'C': check_c}
    bad = []
    for k in which:
        try:
            if not checks[k]():
                bad.append(k)
        except Exception as e:  # an error is not a silent mismatch; report it
            print('%s: raised %r' % (k, e))
            bad.append(k + '(error)')
    if bad:
        print('MISBEHAVES:', ', '.join(bad))
        return 1
    print('OK')
    return 0


if __name__ == '__main__':
    sys.exit(main())
