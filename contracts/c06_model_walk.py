"""BOUNDED stand-in for C06 (run natively on the extensions built from the
working tree; never counted as proved).

Random sequences of public ParticleArray calls with valid arguments are run
side by side with the property's own reference: a list of records (one dict
per particle).  After every call

  * every property holds number_of_particles x stride values of its type;
  * the particles, read as complete records across ALL properties, are
    exactly the model's records (matched through a `uid` property that is
    itself one of the compared values, so values that drift apart are seen);
  * constants are what they were (or what the call says);
  * after an aligning call the Local particles are the first
    num_real_particles entries.

Input (stdin, json): built = tree root, seeds = list of ints, steps = int.
Output: json {"bad": None | {...}, "cases": number of calls checked}.
"""
import json
import pickle
import sys

d = json.load(sys.stdin)
sys.path.insert(0, d['built'])
import numpy as np                                              # noqa: E402
from pysph.base.particle_array import ParticleArray             # noqa: E402
from cyarray.api import LongArray                               # noqa: E402

NP = {'double': np.float64, 'float': np.float32, 'int': np.int32,
      'long': np.int64, 'unsigned int': np.uint32}
CT = {'double': 'double', 'float': 'float', 'int': 'int', 'long': 'long',
      'unsigned int': 'unsigned int'}
UINT_MAX = 4294967295


class Model(object):
    def __init__(self):
        # the three properties every array is born with
        self.props = {'tag': dict(type='int', stride=1, default=0),
                      'pid': dict(type='int', stride=1, default=0),
                      'gid': dict(type='unsigned int', stride=1,
                                  default=UINT_MAX)}
        self.recs = []          # dict name -> tuple of stride values
        self.consts = {}

    def default_rec(self):
        return {k: (v['default'],) * v['stride']
                for k, v in self.props.items()}


def val(rng, typ):
    if typ in ('double', 'float'):
        return float(rng.randint(-64, 64)) / 4.0       # exact in float32
    if typ == 'unsigned int':
        return int(rng.randint(0, 1000))
    return int(rng.randint(-1000, 1000))


def read(pa):
    """records of the real array keyed by position"""
    n = pa.get_number_of_particles()
    out = [dict() for _ in range(n)]
    for name, arr in pa.properties.items():
        st = pa.stride.get(name, 1)
        a = arr.get_npy_array()
        if len(a) != n * st:
            raise AssertionError('property %s holds %d values for %d '
                                 'particles of stride %d' % (name, len(a), n,
                                                             st))
        for i in range(n):
            out[i][name] = tuple(a[i * st:(i + 1) * st].tolist())
    return out


def compare(pa, mo, what, aligned):
    if set(pa.properties) != set(mo.props):
        return 'property names %s, model %s' % (sorted(pa.properties),
                                                 sorted(mo.props))
    for k, v in mo.props.items():
        if pa.properties[k].get_c_type() != CT[v['type']]:
            return 'property %s has type %s, model %s' % (
                k, pa.properties[k].get_c_type(), v['type'])
        if pa.stride.get(k, 1) != v['stride']:
            return 'property %s has stride %s, model %s' % (
                k, pa.stride.get(k, 1), v['stride'])
    try:
        got = read(pa)
    except AssertionError as e:
        return str(e)
    if len(got) != len(mo.recs):
        return '%d particles, model %d' % (len(got), len(mo.recs))
    key = lambda r: (r['uid'], sorted(r.items()))   # noqa: E731
    g = sorted(got, key=key)
    w = sorted(mo.recs, key=key)
    for a, b in zip(g, w):
        if a != b:
            diff = {k: (a.get(k), b.get(k)) for k in set(a) | set(b)
                    if a.get(k) != b.get(k)}
            return 'particle uid=%s: (array, model) differ in %r' % (
                b['uid'], diff)
    if set(pa.constants) != set(mo.consts):
        return 'constants %s, model %s' % (sorted(pa.constants),
                                           sorted(mo.consts))
    for k, v in mo.consts.items():
        c = np.ravel(pa.constants[k].get_npy_array())
        if c.tolist() != np.ravel(v).tolist():
            return 'constant %s is %s, model %s' % (k, c.tolist(),
                                                    np.ravel(v).tolist())
    if aligned:
        tags = [r['tag'][0] for r in got]
        nreal = sum(1 for t in tags if t == 0)
        if pa.num_real_particles != nreal:
            return 'num_real_particles %d with %d Local particles' % (
                pa.num_real_particles, nreal)
        if any(t != 0 for t in tags[:nreal]):
            return 'after alignment tags are %s' % tags
    return None


def fresh_uids(st, n):
    out = list(range(st['uid'], st['uid'] + n))
    st['uid'] += n
    return out


def random_other(rng, mo, st, n):
    """a second array with a different property set: some shared, some new"""
    other = ParticleArray(name='other')
    om = Model()
    shared = [k for k in mo.props if k not in ('tag', 'pid', 'gid', 'uid')
              and rng.rand() < 0.6]
    names = {}
    for k in shared:
        names[k] = dict(mo.props[k])
    for j in range(rng.randint(0, 3)):
        nm = 'q%d' % st['nprop']
        st['nprop'] += 1
        typ = list(NP)[rng.randint(len(NP))]
        names[nm] = dict(type=typ, stride=int(rng.choice([1, 1, 2, 3])),
                         default=val(rng, typ))
    names['uid'] = dict(type='long', stride=1, default=-1)
    uids = fresh_uids(st, n)
    tags = [int(rng.choice([0, 0, 1, 2])) for _ in range(n)]
    for k, v in names.items():
        if k == 'uid':
            data = np.array(uids, dtype=np.int64)
        else:
            data = np.array([val(rng, v['type']) for _ in
                             range(n * v['stride'])], dtype=NP[v['type']])
        other.add_property(k, type=v['type'], default=v['default'],
                           data=data if n else None, stride=v['stride'])
        om.props[k] = v
    if n:
        other.add_property('tag', type='int', data=np.array(tags,
                                                            dtype=np.int32))
    other.align_particles()
    om.recs = read(other)
    return other, om


def step(rng, pa, mo, st):
    """one random call; returns (description, aligned?) or None (skipped)"""
    n = len(mo.recs)
    user = [k for k in mo.props if k not in ('tag', 'pid', 'gid', 'uid')]
    op = rng.choice(['add', 'add', 'remove', 'remove_tagged', 'extract',
                     'append', 'append', 'add_property', 'remove_property',
                     'add_constant', 'shrink', 'set_tag', 'align', 'clone',
                     'pickle', 'extend', 'copy_properties', 'copy_over',
                     'set_to_zero', 'ensure', 'set', 'clear_readd'])
    st['doing'] = str(op)
    cur = read(pa)
    if op == 'add':
        k = int(rng.randint(0, 5))
        given = [p for p in user if rng.rand() < 0.6] + ['uid']
        if rng.rand() < 0.7:
            given.append('tag')
        uids = fresh_uids(st, k)
        kw = {}
        new = [mo.default_rec() for _ in range(k)]
        for p in given:
            v = mo.props[p]
            if p == 'uid':
                arr = np.array(uids, dtype=np.int64)
            elif p == 'tag':
                arr = np.array([int(rng.choice([0, 0, 1, 2])) for _ in
                                range(k)], dtype=np.int32)
            else:
                arr = np.array([val(rng, v['type']) for _ in
                                range(k * v['stride'])], dtype=NP[v['type']])
            kw[p] = arr
            for i in range(k):
                new[i][p] = tuple(arr[i * v['stride']:(i + 1) * v['stride']]
                                  .tolist())
        al = bool(rng.rand() < 0.7)
        pa.add_particles(align=al, **kw)
        mo.recs += new
        return 'add_particles(align=%s, %s) with %d particles' % (
            al, sorted(kw), k), al and k > 0
    if op == 'remove':
        if n == 0:
            return None
        idx = sorted(set(int(i) for i in rng.randint(0, n, rng.randint(0, 4))))
        form = rng.randint(3)
        arg = idx if form == 0 else (np.array(idx, dtype=np.int64)
                                     if form == 1 else None)
        if form == 2:
            arg = LongArray(len(idx))
            arg.set_data(np.array(idx, dtype=np.int64))
        gone = [cur[i]['uid'] for i in idx]
        pa.remove_particles(arg)
        mo.recs = [r for r in mo.recs if r['uid'] not in gone]
        return 'remove_particles(%s)' % idx, len(idx) > 0
    if op == 'remove_tagged':
        t = int(rng.choice([0, 1, 2]))
        pa.remove_tagged_particles(t)
        k0 = len(mo.recs)
        mo.recs = [r for r in mo.recs if r['tag'][0] != t]
        # (the array is re-aligned only when something was removed)
        return 'remove_tagged_particles(%d)' % t, len(mo.recs) < k0
    if op == 'extract':
        if n == 0:
            return None
        idx = [int(i) for i in rng.randint(0, n, rng.randint(0, 4))]
        idx = sorted(set(idx))
        props = None
        if rng.rand() < 0.5:
            props = [p for p in mo.props if rng.rand() < 0.5 or p in
                     ('uid', 'tag')]
        la = LongArray(len(idx))
        la.set_data(np.array(idx, dtype=np.int64))
        res = pa.extract_particles(la, props=props) if props is not None \
            else pa.extract_particles(la)
        em = Model()
        em.props = {k: dict(v) for k, v in mo.props.items()
                    if props is None or k in props}
        em.consts = dict(mo.consts)
        for i in idx:
            em.recs.append({k: v for k, v in cur[i].items() if k in em.props})
        # the result has at least the requested properties
        extra = set(res.properties) - set(em.props)
        for k in extra:
            if k not in ('tag', 'pid', 'gid'):
                return 'extract_particles(%s, props=%s): unexpected ' \
                    'property %s' % (idx, props, k), 'FAIL'
            em.props[k] = Model().props[k]
            for r, i in zip(em.recs, idx):
                r[k] = cur[i][k] if k in cur[i] else (em.props[k]['default'],)
        why = compare(res, em, 'extract', bool(idx))
        if why:
            return 'extract_particles(%s, props=%s) result: %s' % (
                idx, props, why), 'FAIL'
        return 'extract_particles(%s, props=%s)' % (idx, props), False
    if op == 'append':
        k = int(rng.randint(0, 4))
        other, om = random_other(rng, mo, st, k)
        if rng.rand() < 0.4:
            cn = 'c%d' % rng.randint(0, 4)
            other.add_constant(cn, np.array([1.5, 2.5]))
            om.consts[cn] = np.array([1.5, 2.5])
        al = bool(rng.rand() < 0.7)
        uc = bool(rng.rand() < 0.5)
        pa.append_parray(other, align=al, update_constants=uc)
        # the receiver's constants are its own: writing to the source's
        # afterwards must not show in the receiver
        for c_ in other.constants.values():
            c_.get_npy_array()[:] = -77.0
        if k > 0:
            for name, v in om.props.items():
                if name not in mo.props:
                    mo.props[name] = dict(v)
                    for r in mo.recs:
                        r[name] = (v['default'],) * v['stride']
            for r in om.recs:
                nr = mo.default_rec()
                nr.update(r)
                mo.recs.append(nr)
            if uc:
                for c, v in om.consts.items():
                    mo.consts.setdefault(c, v)
        return 'append_parray(other with %d particles, props %s, align=%s, ' \
            'update_constants=%s)' % (k, sorted(om.props), al, uc), \
            al and k > 0
    if op == 'add_property':
        nm = 'p%d' % st['nprop']
        st['nprop'] += 1
        typ = list(NP)[rng.randint(len(NP))]
        stride = int(rng.choice([1, 1, 2, 3]))
        default = val(rng, typ)
        data = None
        if rng.rand() < 0.5 and n > 0:
            data = np.array([val(rng, typ) for _ in range(n * stride)],
                            dtype=NP[typ])
        pa.add_property(nm, type=typ, default=default, data=data,
                        stride=stride)
        mo.props[nm] = dict(type=typ, stride=stride, default=default)
        for i, r in enumerate(cur):
            uid = r['uid']
            tgt = [m for m in mo.recs if m['uid'] == uid][0]
            tgt[nm] = tuple(data[i * stride:(i + 1) * stride].tolist()) \
                if data is not None else (default,) * stride
        return 'add_property(%s, %s, default=%s, data=%s, stride=%d)' % (
            nm, typ, default, 'given' if data is not None else None,
            stride), False
    if op == 'remove_property':
        if not user:
            return None
        nm = user[rng.randint(len(user))]
        pa.remove_property(nm)
        del mo.props[nm]
        for r in mo.recs:
            del r[nm]
        return 'remove_property(%s)' % nm, False
    if op == 'add_constant':
        cn = 'c%d' % rng.randint(0, 6)
        if cn in mo.consts:
            return None          # an existing name is rejected (documented)
        v = np.array([float(rng.randint(0, 9)) for _ in
                      range(rng.randint(1, 4))])
        pa.add_constant(cn, v)
        mo.consts[cn] = v
        return 'add_constant(%s, %s)' % (cn, v.tolist()), False
    if op == 'shrink':
        if n == 0:
            return None
        m = int(rng.randint(0, n + 1))
        keep = [cur[i]['uid'] for i in range(m)]
        pa.resize(m)
        pa.align_particles()
        mo.recs = [r for r in mo.recs if r['uid'] in keep]
        return 'resize(%d); align_particles()' % m, True
    if op == 'set_tag':
        if n == 0:
            return None
        idx = sorted(set(int(i) for i in rng.randint(0, n, rng.randint(0, 4))))
        t = int(rng.choice([0, 1, 2]))
        la = LongArray(len(idx))
        la.set_data(np.array(idx, dtype=np.int64))
        pa.set_tag(t, la)
        ids = [cur[i]['uid'] for i in idx]
        for r in mo.recs:
            if r['uid'] in ids:
                r['tag'] = (t,)
        return 'set_tag(%d, %s)' % (t, idx), False
    if op == 'align':
        pa.align_particles()
        return 'align_particles()', True
    if op == 'clone':
        c = pa.empty_clone()
        em = Model()
        em.props = {k: dict(v) for k, v in mo.props.items()}
        em.consts = dict(mo.consts)
        why = compare(c, em, 'clone', True)
        if why:
            return 'empty_clone(): %s' % why, 'FAIL'
        return 'empty_clone()', False
    if op == 'pickle':
        c = pickle.loads(pickle.dumps(pa))
        why = compare(c, mo, 'pickle', False)
        if why:
            return 'pickle round trip: %s' % why, 'FAIL'
        tags = [r['tag'][0] for r in cur]
        nloc = sum(1 for t in tags if t == 0)
        is_aligned = pa.num_real_particles == nloc and \
            all(t == 0 for t in tags[:nloc])
        if is_aligned and c.num_real_particles != pa.num_real_particles:
            return 'pickle round trip: num_real_particles %d -> %d' % (
                pa.num_real_particles, c.num_real_particles), 'FAIL'
        return 'pickle round trip', False
    if op == 'extend':
        k = int(rng.randint(0, 4))
        pa.extend(k)
        uids = fresh_uids(st, k)
        if k:
            pa.get_carray('uid').get_npy_array()[n:] = uids
        for u in uids:
            r = mo.default_rec()
            r['uid'] = (u,)
            mo.recs.append(r)
        return 'extend(%d)' % k, False
    if op == 'copy_properties':
        if n == 0:
            return None
        k = int(rng.randint(1, min(n, 3) + 1))
        start = int(rng.randint(0, n - k + 1))
        src = ParticleArray(name='src')
        names = [p for p in user if rng.rand() < 0.6]
        sm = {}
        for p in names:
            v = mo.props[p]
            data = np.array([val(rng, v['type']) for _ in
                             range(k * v['stride'])], dtype=NP[v['type']])
            src.add_property(p, type=v['type'], data=data,
                             stride=v['stride'])
            sm[p] = data
        if not names:
            return None
        # every property of the source that self has is copied: the source
        # is a particle array, so its tag / pid / gid go along
        for p in ('tag', 'pid', 'gid'):
            sm[p] = src.get_carray(p).get_npy_array().copy()
        names = names + ['tag', 'pid', 'gid']
        if k < n - start and rng.rand() < 0.25:
            # a range the source cannot fill is refused and nothing changes
            try:
                pa.copy_properties(src, start, start + k + 1)
            except ValueError:
                return 'copy_properties(src with %d particles, %d, %d) ' \
                    'refused' % (k, start, start + k + 1), False
            return 'copy_properties(src with %d particles, %d, %d): a ' \
                'range longer than the source was accepted' % (
                    k, start, start + k + 1), 'FAIL'
        if start + k == n and rng.rand() < 0.5:
            # the default end: up to the last particle
            pa.copy_properties(src, start_index=start)
        else:
            pa.copy_properties(src, start, start + k)
        for j in range(k):
            uid = cur[start + j]['uid']
            tgt = [m for m in mo.recs if m['uid'] == uid][0]
            for p in names:
                s_ = mo.props[p]['stride']
                tgt[p] = tuple(sm[p][j * s_:(j + 1) * s_].tolist())
        return 'copy_properties(src with %s, %d, %d)' % (names, start,
                                                         start + k), False
    if op == 'copy_over':
        dbl = [p for p in user if mo.props[p]['type'] == 'double']
        pairs = [(a, b) for a in dbl for b in dbl if a != b and
                 mo.props[a]['stride'] == mo.props[b]['stride']]
        if not pairs:
            return None
        a, b = pairs[rng.randint(len(pairs))]
        pa.copy_over_properties({a: b})
        for r in mo.recs:
            r[b] = r[a]
        return 'copy_over_properties({%s: %s})' % (a, b), False
    if op == 'set_to_zero':
        dbl = [p for p in user if mo.props[p]['type'] == 'double']
        if not dbl:
            return None
        a = dbl[rng.randint(len(dbl))]
        pa.set_to_zero([a])
        for r in mo.recs:
            r[a] = (0.0,) * mo.props[a]['stride']
        return 'set_to_zero([%s])' % a, False
    if op == 'ensure':
        other, om = random_other(rng, mo, st, 0)
        pa.ensure_properties(other)
        for name, v in om.props.items():
            if name not in mo.props:
                mo.props[name] = dict(v)
                for r in mo.recs:
                    r[name] = (v['default'],) * v['stride']
        return 'ensure_properties(other with %s)' % sorted(om.props), False
    if op == 'set':
        # set() writes the real particles of an aligned array
        if not user or n == 0:
            return None
        pa.align_particles()
        cur = read(pa)
        nreal = pa.get_number_of_particles(real=True)
        p = user[rng.randint(len(user))]
        v = mo.props[p]
        data = np.array([val(rng, v['type']) for _ in
                         range(nreal * v['stride'])], dtype=NP[v['type']])
        pa.set(**{p: data})
        for i in range(nreal):
            uid = cur[i]['uid']
            tgt = [m for m in mo.recs if m['uid'] == uid][0]
            tgt[p] = tuple(data[i * v['stride']:(i + 1) * v['stride']]
                           .tolist())
        return 'align_particles(); set(%s=<%d real values>)' % (p, nreal), \
            True
    if op == 'clear_readd':
        if rng.rand() < 0.7:
            return None
        pa.clear()
        mo.props = dict(Model().props)
        mo.recs = []
        if pa.num_real_particles != 0:
            return 'clear(): num_real_particles is %d on an array with no ' \
                'particles' % pa.num_real_particles, 'FAIL'
        if dict(pa.stride):
            return 'clear(): the stride table still holds %r' % (
                dict(pa.stride),), 'FAIL'
        # the walk tells particles apart by uid: put that column back
        pa.add_property('uid', type='long', default=-1)
        mo.props['uid'] = dict(type='long', stride=1, default=-1)
        return 'clear(); add_property(uid)', False
    return None


def run(seed, steps):
    rng = np.random.RandomState(seed)
    st = dict(uid=0, nprop=0)
    pa = ParticleArray(name='a')
    mo = Model()
    pa.add_property('uid', type='long', default=-1)
    mo.props['uid'] = dict(type='long', stride=1, default=-1)
    # a few starting properties of every type, one strided
    for typ in NP:
        nm = 'p%d' % st['nprop']
        st['nprop'] += 1
        stride = 3 if typ == 'double' and rng.rand() < 0.5 else 1
        default = val(rng, typ)
        pa.add_property(nm, type=typ, default=default, stride=stride)
        mo.props[nm] = dict(type=typ, stride=stride, default=default)
    history = []
    done = 0
    for k in range(steps):
        try:
            r = step(rng, pa, mo, st)
        except Exception as e:
            return dict(case='seed %d' % seed, history=history[-8:],
                        call='%s (raised; earlier calls in history)' % st.get('doing'),
                        raised='%s: %s' % (type(e).__name__, str(e)[:300])), \
                done
        if r is None:
            continue
        what, aligned = r
        history.append(what)
        done += 1
        if aligned == 'FAIL':
            return dict(case='seed %d' % seed, history=history[-8:],
                        call=what.split(':')[0], observed=what), done
        why = compare(pa, mo, what, aligned)
        if why:
            return dict(case='seed %d' % seed, history=history[-8:],
                        call=what, observed=why), done
    return None, done


def typed_destination():
    """extract_particles into a destination whose same-named properties have
    ANOTHER C type (only the widening direction is run: the narrowing one
    overruns the destination buffer)"""
    src = ParticleArray(name='s')
    src.add_property('x', type='float', data=np.array([1., 2., 3., 4.],
                                                      dtype=np.float32))
    src.add_property('n', type='int', data=np.array([10, 20, 30, 40],
                                                    dtype=np.int32))
    dst = ParticleArray(name='d')
    dst.add_property('x', type='double')
    dst.add_property('n', type='long')
    la = LongArray(4)
    la.set_data(np.arange(4, dtype=np.int64))
    src.extract_particles(la, dest_array=dst)
    gx = dst.get('x', only_real_particles=False).tolist()
    gn = dst.get('n', only_real_particles=False).tolist()
    if gx != [1.0, 2.0, 3.0, 4.0] or gn != [10, 20, 30, 40]:
        return dict(call='extract_particles([0..3], dest_array=d) with x '
                    'float -> double and n int -> long', observed=dict(
                        x=gx, n=gn), expected=dict(x=[1.0, 2.0, 3.0, 4.0],
                                                   n=[10, 20, 30, 40]))
    return None


bad = None
cases = 0
typed = None
try:
    typed = typed_destination()
except Exception as e:
    typed = dict(call='extract_particles into a destination of another '
                 'type', raised='%s: %s' % (type(e).__name__, str(e)[:200]))
for seed in d['seeds']:
    b, n = run(seed, d['steps'])
    cases += n
    if b is not None:
        bad = b
        break
print(json.dumps(dict(bad=bad, cases=cases, typed=typed)))
