"""BOUNDED stand-in for C14 (never counted as proved): the real Interpolator
(pure-Python sources from the working tree, compiled evaluator generated at
run time) against the defining formulas evaluated with numpy and the Python
kernel classes, through sequences of interpolate / move + update /
update_particle_arrays / set_interpolation_points.

  shepard      sum_j W_ij f_j / sum_j W_ij  (0 where no source is in range)
  sph          sum_j m_j/rho_j W_ij f_j
  splash       sum_j m_j/rho_j W(r_ij, h_i) f_j
  splash_norm  sum_j m_j/rho_j W(r_ij, h_j) f_j / sum_j m_j/rho_j W(r_ij, h_j)
  order1       a linear field and its gradient are reproduced
with W_ij = W(r_ij, (h_i+h_j)/2) and j ranging over the particles (periodic
images included) with r_ij < radius_scale * max(h_i, h_j).

Input (stdin, json): root, combos = [[method, dim, narr, periodic], ...],
seed.  Output: json {bad, cases}.
"""
import importlib.util
import json
import os
import sys

d = json.load(sys.stdin)
root = d['root']
sys.path[:] = [p for p in sys.path
               if os.path.abspath(p or os.getcwd()) != root]
import numpy as np                                              # noqa: E402
import pysph.tools                                              # noqa: E402
from pysph.base.utils import get_particle_array                 # noqa: E402
from pysph.base.kernels import CubicSpline, Gaussian            # noqa: E402
from pysph.base.nnps import DomainManager                       # noqa: E402


def load(modname, relpath):
    spec = importlib.util.spec_from_file_location(
        modname, os.path.join(root, relpath))
    mod = importlib.util.module_from_spec(spec)
    sys.modules[modname] = mod
    spec.loader.exec_module(mod)
    parent, _, child = modname.rpartition('.')
    if parent in sys.modules:
        setattr(sys.modules[parent], child, mod)
    return mod


interp = load('pysph.tools.interpolator', 'pysph/tools/interpolator.py')


def sources(rng, dim, narr, lin, tag=''):
    out = []
    for k in range(narr):
        m = {1: 24, 2: 9, 3: 6}[dim]
        g = (np.arange(m) + 0.5) / m
        grids = np.meshgrid(*([g] * dim), indexing='ij')
        pts = np.array([q.ravel() for q in grids]).T
        pts = pts + rng.uniform(-0.2, 0.2, pts.shape) / m
        if narr > 1:
            keep = rng.rand(len(pts)) < (0.6 if k == 0 else 0.5)
            if k == 0:
                first_keep = keep
            else:
                keep = ~first_keep | keep
            pts = pts[keep]
        n = len(pts)
        xyz = [pts[:, a] if a < dim else np.zeros(n) for a in range(3)]
        h = (1.2 + 0.5 * rng.rand(n)) / m
        pa = get_particle_array(name='s%d' % k, x=xyz[0], y=xyz[1], z=xyz[2],
                                h=h, m=(0.5 + rng.rand(n)) / m ** dim,
                                rho=0.5 + rng.rand(n))
        pa.add_property('f')
        if lin is None:
            pa.f[:] = rng.rand(n) * 4 - 1
        else:
            pa.f[:] = lin[0] + lin[1] * pa.x + lin[2] * pa.y + lin[3] * pa.z
        out.append(pa)
    return out


def expected(method, kernel, srcs, tx, ty, tz, th, periodic, dim):
    rs = kernel.radius_scale
    res = np.zeros(len(tx))
    for i in range(len(tx)):
        num = 0.0
        den = 0.0
        for pa in srcs:
            sx, sy, sz = pa.x, pa.y, pa.z
            sh, sm, srho, sf = pa.h, pa.m, pa.rho, pa.f
            shifts = [0.0]
            if periodic:
                shifts = [0.0, 1.0, -1.0]
            for s_ in shifts:
                dx = tx[i] - (sx + s_)
                dy = ty[i] - sy
                dz = tz[i] - sz
                r = np.sqrt(dx * dx + dy * dy + dz * dz)
                near = r < rs * np.maximum(th[i], sh)
                for j in np.where(near)[0]:
                    if method == 'splash':
                        hh = th[i]
                    elif method == 'splash_norm':
                        hh = sh[j]
                    else:
                        hh = 0.5 * (th[i] + sh[j])
                    w = kernel.kernel([dx[j], dy[j], dz[j]], r[j], hh)
                    if method == 'shepard':
                        num += w * sf[j]
                        den += w
                    else:
                        c = sm[j] / srho[j] * w
                        num += c * sf[j]
                        den += c
        if method in ('shepard', 'splash_norm'):
            res[i] = num / den if den > 1e-12 else num
        else:
            res[i] = num
    return res


def targets(rng, dim, k, lo, hi):
    t = [rng.uniform(lo, hi, k) if a < dim else np.zeros(k)
         for a in range(3)]
    return t


def swap_yz(pa):
    y = pa.y.copy()
    pa.y[:] = pa.z
    pa.z[:] = y


def run_combo(method, dim, narr, periodic, seed, plane='xy'):
    rng = np.random.RandomState(seed)
    where = dict(method=method, dim=dim, arrays=narr, periodic=periodic,
                 seed=seed, plane=plane)
    lin = None
    if method == 'order1':
        lin = [float(v) for v in rng.uniform(-2, 2, 4)]
        for a in range(dim, 3):
            lin[1 + a] = 0.0
    kernel = CubicSpline(dim=dim) if seed % 2 else Gaussian(dim=dim)
    # (a linear field is not periodic and the kernel support is wider than
    # half the box here: order1 is not combined with a periodic domain)
    if method == 'order1':
        periodic = False
        where['periodic'] = False
    dm = None
    if periodic:
        kw = dict(xmin=0.0, xmax=1.0, periodic_in_x=True)
        dm = DomainManager(**kw)
    srcs = sources(rng, dim, narr, lin)
    lo, hi = (0.3, 0.7) if method == 'order1' else (0.02, 0.98)
    k = 12
    t = targets(rng, dim, k, lo, hi)
    if plane == 'xz':
        # a two-dimensional set lying in the x-z plane
        for pa in srcs:
            swap_yz(pa)
            pa.f[:] = lin[0] + lin[1] * pa.x + lin[2] * pa.z
        t = [t[0], t[2], t[1]]
        lin = [lin[0], lin[1], 0.0, lin[2]]
    ip = interp.Interpolator(srcs, x=t[0], y=t[1], z=t[2], kernel=kernel,
                             method=method, domain_manager=dm)
    cases = 0
    # the smoothing length of the interpolation points is the largest source
    # h at the time the points are made (documented in the class)
    hpts = [max(pa.h.max() for pa in srcs)]

    def check(stage, srcs, t):
        th = np.ones(len(t[0])) * hpts[0]
        if not np.array_equal(np.asarray(ip.pa.h, dtype=float), th):
            return dict(where, stage=stage, problem='the interpolation '
                        'points do not carry the largest source h',
                        observed=np.asarray(ip.pa.h).tolist()[:4],
                        expected=float(hpts[0]))
        if method == 'order1':
            val = ip.interpolate('f', 0)
            want = lin[0] + lin[1] * t[0] + lin[2] * t[1] + lin[3] * t[2]
            if not np.allclose(val, want, rtol=1e-6, atol=1e-8):
                i = int(np.argmax(np.abs(val - want)))
                return dict(where, stage=stage, problem='linear field not '
                            'reproduced', point=[float(t[a][i]) for a in
                                                 range(3)],
                            observed=float(val[i]), expected=float(want[i]))
            for c in ((1, 3) if plane == 'xz' else range(1, dim + 1)):
                g = ip.interpolate('f', c)
                if not np.allclose(g, lin[c], rtol=1e-6, atol=1e-7):
                    i = int(np.argmax(np.abs(g - lin[c])))
                    return dict(where, stage=stage, problem='gradient '
                                'component %d of a linear field not '
                                'reproduced' % c, observed=float(g[i]),
                                expected=lin[c])
            return None
        val = ip.interpolate('f')
        real_srcs = []
        for pa in srcs:
            # compare with the REAL particles and explicit periodic images
            real_srcs.append(pa)
        want = expected(method, kernel, [_Real(pa) for pa in srcs], t[0],
                        t[1], t[2], th, periodic, dim)
        if not np.allclose(val, want, rtol=1e-9, atol=1e-12):
            i = int(np.argmax(np.abs(val - want)))
            return dict(where, stage=stage, problem='value differs from '
                        'the defining formula', point=[float(t[a][i]) for a
                                                       in range(3)],
                        observed=float(val[i]), expected=float(want[i]))
        if method == 'shepard':
            fs = np.concatenate([pa.f for pa in srcs])
            if (val < fs.min() - 1e-9).any() or (val > fs.max() + 1e-9).any():
                return dict(where, stage=stage, problem='Shepard value '
                            'outside the range of the source values')
        return None

    b = check('first interpolate', srcs, t)
    cases += 1
    if b or plane == 'xz':
        return b, cases
    # particles move in place, values change -> update()
    for pa in srcs:
        n = len(pa.x)            # the real particles (ghosts are rebuilt)
        for a, nm in enumerate('xyz'):
            if a < dim:
                arr = getattr(pa, nm)
                arr[:] = np.clip(arr + rng.uniform(-0.01, 0.01, n), 0.001,
                                 0.999)
        if lin is None:
            pa.f[:] = rng.rand(n) * 4 - 1
        else:
            pa.f[:] = lin[0] + lin[1] * pa.x + lin[2] * pa.y + lin[3] * pa.z
    ip.update()
    b = check('after moving the sources and update()', srcs, t)
    cases += 1
    if b:
        return b, cases
    # new points
    t = targets(rng, dim, k, lo, hi)
    ip.set_interpolation_points(x=t[0], y=t[1], z=t[2])
    hpts[0] = max(pa.h.max() for pa in srcs)
    b = check('after set_interpolation_points', srcs, t)
    cases += 1
    if b:
        return b, cases
    # new arrays with the same properties
    srcs = sources(rng, dim, narr, lin)
    ip.update_particle_arrays(srcs)
    b = check('after update_particle_arrays', srcs, t)
    cases += 1
    if b:
        return b, cases
    # and once more new points on the new arrays
    t = targets(rng, dim, k, lo, hi)
    ip.set_interpolation_points(x=t[0], y=t[1], z=t[2])
    hpts[0] = max(pa.h.max() for pa in srcs)
    b = check('after update_particle_arrays and set_interpolation_points',
              srcs, t)
    cases += 1
    if b or method == 'order1':
        return b, cases
    # integer-typed target coordinates (np.arange, np.mgrid[0:2, 0:2] ...)
    # are the same points as their float twins
    corners = np.array(np.meshgrid(*([[0, 1]] * dim), indexing='ij'))
    corners = corners.reshape(dim, -1)
    t = [corners[a].astype(np.int64) if a < dim else
         np.zeros(corners.shape[1], dtype=np.int64) for a in range(3)]
    ip.set_interpolation_points(x=t[0], y=t[1], z=t[2])
    hpts[0] = max(pa.h.max() for pa in srcs)
    b = check('integer-typed target coordinates', srcs,
              [np.asarray(v, dtype=float) for v in t])
    cases += 1
    return b, cases


class _Real(object):
    """the real particles of an array (ghosts of a periodic domain are
    accounted for by explicit images)"""

    def __init__(self, pa):
        for k in ('x', 'y', 'z', 'h', 'm', 'rho', 'f'):
            setattr(self, k, pa.get(k).copy())


bad = None
total = 0
for combo in d['combos']:
    method, dim, narr, periodic = combo[:4]
    try:
        b, c = run_combo(method, dim, narr, bool(periodic), d.get('seed', 0),
                         combo[4] if len(combo) > 4 else 'xy')
    except Exception as e:
        import traceback
        b, c = dict(method=method, dim=dim, arrays=narr, periodic=periodic,
                    error='%s: %s' % (type(e).__name__, str(e)[:300]),
                    tb=traceback.format_exc()[-800:]), 0
    total += c
    if b is not None:
        bad = b
        break
print(json.dumps(dict(bad=bad, cases=total)))
