"""BOUNDED stand-in for C16 (never counted as proved): random HISTORIES of
update calls on the real Inlet/Outlet classes of the five shipped families
(pure-Python sources loaded from the working tree, compiled particle arrays
and evaluator from the installed package).

Each trial: a zone with a random unit normal in 3-D, random zone length,
an inlet (or outlet) array, a fluid array; before every update every particle
is displaced by its own random amount along the normal (forwards, backwards,
several crossing in one step, crossing and coming back).  After every update
the three arrays are compared with the property's own bookkeeping, computed
from the positions BEFORE the update:

  inlet    every inlet particle that has left the zone on the fluid side
           (signed distance <= 0) appears exactly once more in the fluid with
           its properties copied, and its original sits exactly one zone
           length upstream; all other particles of both arrays are untouched
  outlet   every fluid particle beyond the plane is now in the outlet array
           (copied properties) and no longer in the fluid; every outlet
           particle beyond the far end is gone; all others untouched; a ghost
           array, where the family keeps one, holds the same particles as the
           outlet array
  count    fluid = initial + entered - left after every update

Particles are told apart by a `uid` property that is itself copied.  Signed
distances within 1e-5 of a threshold are redrawn (the tie is a recorded
finding of its own).

Input (stdin, json): root, seeds, updates.  Output: json {bad, cases}.
"""
import importlib.util
import json
import os
import sys

d = json.load(sys.stdin)
root = d['root']
sys.path[:] = [p for p in sys.path
               if os.path.abspath(p or os.getcwd()) != root]
import numpy as np                                              # noqa: E402
import pysph.sph.bc                                             # noqa: E402
from pysph.base.utils import get_particle_array                 # noqa: E402
from pysph.base.kernels import QuinticSpline                    # noqa: E402

FAMILIES = ['donothing', 'mirror', 'hybrid', 'characteristic',
            'mod_donothing']


def load(modname, relpath):
    spec = importlib.util.spec_from_file_location(
        modname, os.path.join(root, relpath))
    mod = importlib.util.module_from_spec(spec)
    sys.modules[modname] = mod
    spec.loader.exec_module(mod)
    parent, _, child = modname.rpartition('.')
    if parent in sys.modules:
        setattr(sys.modules[parent], child, mod)
    return mod


iom = load('pysph.sph.bc.inlet_outlet_manager',
           'pysph/sph/bc/inlet_outlet_manager.py')
MODS = {}
for fam in FAMILIES:
    __import__('pysph.sph.bc.' + fam)
    MODS[fam] = (load('pysph.sph.bc.%s.inlet' % fam,
                      'pysph/sph/bc/%s/inlet.py' % fam),
                 load('pysph.sph.bc.%s.outlet' % fam,
                      'pysph/sph/bc/%s/outlet.py' % fam))

PROPS = ['x', 'y', 'z', 'u', 'v', 'w', 'm', 'h', 'rho', 'p', 'uid', 'q']


def make(name, n, rng, uid0, pos):
    pa = get_particle_array(name=name, x=pos[:, 0], y=pos[:, 1], z=pos[:, 2],
                            m=np.ones(n), h=np.ones(n) * 0.15, u=rng.rand(n),
                            v=rng.rand(n), w=rng.rand(n),
                            rho=rng.rand(n) + 1, p=rng.rand(n))
    for p in ('ioid', 'disp', 'uid', 'q'):
        pa.add_property(p)
    pa.uid[:] = uid0 + np.arange(n)
    pa.q[:] = rng.rand(n)
    pa.add_constant('uref', [1.0])
    return pa


def recs(pa, props=PROPS):
    n = pa.get_number_of_particles()
    out = {}
    cols = {p: pa.get(p, only_real_particles=False) for p in props}
    for i in range(n):
        out.setdefault(float(cols['uid'][i]), []).append(
            tuple(float(cols[p][i]) for p in props))
    return out


def sdist(pa, ref, nrm):
    return (pa.x - ref[0]) * nrm[0] + (pa.y - ref[1]) * nrm[1] + \
        (pa.z - ref[2]) * nrm[2]


def move(rng, arrays, ref, nrm, L, scale, ghost=None, sign=1.0):
    """displace every particle along the normal; redraw until no signed
    distance lies within 1e-5 of a threshold"""
    for pa in arrays:
        n = pa.get_number_of_particles()
        if n == 0:
            continue
        for attempt in range(50):
            step = sign * scale * (rng.rand(n) * 1.6 - 0.4)
            if rng.rand() < 0.2:
                step[:] = sign * scale * rng.rand()
            sd = sdist(pa, ref, nrm) + step
            if (np.abs(sd) > 1e-5).all() and (np.abs(sd - L) > 1e-5).all():
                break
        pa.x[:] = pa.x + step * nrm[0]
        pa.y[:] = pa.y + step * nrm[1]
        pa.z[:] = pa.z + step * nrm[2]
        if ghost is not None and pa is arrays[0]:
            ghost.x[:] = ghost.x - step * nrm[0]
            ghost.y[:] = ghost.y - step * nrm[1]
            ghost.z[:] = ghost.z - step * nrm[2]


def close(a, b):
    return len(a) == len(b) and all(abs(x - y) <= 1e-12 * max(1.0, abs(x))
                                    for x, y in zip(a, b))


def trial_inlet(fam, rng, updates, with_ghost):
    nrm = rng.normal(size=3)
    if rng.rand() < 0.3:
        nrm = np.eye(3)[rng.randint(3)] * rng.choice([-1.0, 1.0])
    nrm = nrm / np.linalg.norm(nrm)
    ref = rng.rand(3)
    L = 0.2 + 0.6 * rng.rand()
    ni = int(rng.randint(1, 9))
    nf = int(rng.randint(0, 9))
    side = np.cross(nrm, [0.3, 0.5, 0.7])
    ipos = ref + np.outer(rng.rand(ni) * L * 0.98 + 0.01 * L, nrm) + \
        np.outer(rng.rand(ni), side)
    fpos = ref - np.outer(rng.rand(nf) * 1.0 + 0.01, nrm) + \
        np.outer(rng.rand(nf), side)
    inlet = make('inlet', ni, rng, 0, ipos)
    fluid = make('fluid', nf, rng, 1000, fpos)
    ghost = None
    if with_ghost:
        ghost = make('ghost_inlet', ni, rng, 0, ipos)
    info = iom.InletInfo('inlet', normal=list(nrm), refpoint=list(ref))
    info.length = L
    info.dx = 0.1
    cls = MODS[fam][0].Inlet if fam else iom.InletBase
    io = cls(inlet, fluid, info, QuinticSpline(dim=3), dim=3,
             active_stages=[1], ghost_pa=ghost)
    entered = 0
    where = dict(kind='inlet', family=fam or 'base', normal=nrm.tolist(),
                 length=L, with_ghost=with_ghost)
    cases = 0
    for k in range(updates):
        move(rng, [inlet, fluid], ref, nrm, L, 0.35 * L, ghost=ghost,
             sign=-1.0)
        sd = sdist(inlet, ref, nrm)
        leaving = [float(u) for u, s in zip(inlet.uid, sd) if s <= 0]
        ib, fb = recs(inlet), recs(fluid)
        gb = recs(ghost) if ghost is not None else None
        nf0 = fluid.get_number_of_particles()
        io.update(0.0, 0.1, 1)
        cases += 1
        ia, fa = recs(inlet), recs(fluid)
        entered += len(leaving)
        if fluid.get_number_of_particles() != nf0 + len(leaving):
            return dict(where, update=k, problem='fluid has %d particles, '
                        'expected %d + %d entered' % (
                            fluid.get_number_of_particles(), nf0,
                            len(leaving))), cases
        if inlet.get_number_of_particles() != ni:
            return dict(where, update=k, problem='inlet has %d particles, '
                        'started with %d' % (
                            inlet.get_number_of_particles(), ni)), cases
        for u, rows in ib.items():
            old = rows[0]
            if u in leaving:
                want_fluid = fb.get(u, []) + [old]
                shifted = list(old)
                for a in range(3):
                    shifted[a] = old[a] + L * nrm[a]
                if len(ia.get(u, [])) != 1 or not close(ia[u][0], shifted):
                    return dict(where, update=k, uid=u, problem='the inlet '
                                'original is not recycled exactly one zone '
                                'length upstream', before=old[:3],
                                after=[r[:3] for r in ia.get(u, [])]), cases
            else:
                want_fluid = fb.get(u, [])
                if ia.get(u) != rows:
                    return dict(where, update=k, uid=u, problem='an inlet '
                                'particle that stayed in the zone was '
                                'changed'), cases
            got = fa.get(u, [])
            if sorted(got) != sorted(want_fluid):
                return dict(where, update=k, uid=u, problem='the fluid '
                            'holds %d particle(s) with this uid, expected '
                            '%d with the inlet values copied' % (
                                len(got), len(want_fluid)),
                            fluid=got[:2], expected=want_fluid[:2]), cases
        for u, rows in fb.items():
            if u not in ib and sorted(fa.get(u, [])) != sorted(rows):
                return dict(where, update=k, uid=u, problem='a fluid '
                            'particle was changed, duplicated or lost'), cases
        if set(fa) - set(fb) - set(leaving):
            return dict(where, update=k, problem='unexpected new fluid '
                        'particles', uids=sorted(set(fa) - set(fb) -
                                                 set(leaving))), cases
        if ghost is not None:
            ga = recs(ghost)
            for u, rows in gb.items():
                old = rows[0]
                exp = list(old)
                if u in leaving:
                    for a in range(3):
                        exp[a] = old[a] - L * nrm[a]
                if len(ga.get(u, [])) != 1 or not close(ga[u][0], exp):
                    return dict(where, update=k, uid=u, problem='ghost of '
                                'the inlet particle not moved with it'), cases
        # new fluid particles take part in later moves like any other
    return None, cases


def trial_outlet(fam, rng, updates, with_ghost):
    nrm = rng.normal(size=3)
    if rng.rand() < 0.3:
        nrm = np.eye(3)[rng.randint(3)] * rng.choice([-1.0, 1.0])
    nrm = nrm / np.linalg.norm(nrm)
    ref = rng.rand(3)
    L = 0.2 + 0.6 * rng.rand()
    no = int(rng.randint(0, 6))
    nf = int(rng.randint(1, 10))
    side = np.cross(nrm, [0.3, 0.5, 0.7])
    opos = ref + np.outer(rng.rand(no) * L * 0.98 + 0.01 * L, nrm) + \
        np.outer(rng.rand(no), side)
    fpos = ref - np.outer(rng.rand(nf) * 0.6 + 0.01, nrm) + \
        np.outer(rng.rand(nf), side)
    outlet = make('outlet', no, rng, 0, opos)
    fluid = make('fluid', nf, rng, 1000, fpos)
    ghost = None
    if with_ghost:
        gpos = opos - 2 * np.outer((opos - ref) @ nrm, nrm)
        ghost = make('ghost_outlet', no, rng, 0, gpos)
    info = iom.OutletInfo(pa_name='outlet', normal=list(nrm),
                          refpoint=list(ref), has_ghost=with_ghost,
                          props_to_copy=PROPS + ['ioid'])
    info.length = L
    info.dx = 0.1
    cls = MODS[fam][1].Outlet if fam else iom.OutletBase
    io = cls(outlet, fluid, info, QuinticSpline(dim=3), dim=3,
             active_stages=[1], ghost_pa=ghost)
    where = dict(kind='outlet', family=fam or 'base', normal=nrm.tolist(),
                 length=L, with_ghost=with_ghost)
    left = 0
    cases = 0
    for k in range(updates):
        move(rng, [outlet, fluid], ref, nrm, L, 0.35 * L, ghost=ghost,
             sign=1.0)
        sf = sdist(fluid, ref, nrm)
        so = sdist(outlet, ref, nrm)
        crossing = [float(u) for u, s in zip(fluid.uid, sf) if s > 0]
        dying = [float(u) for u, s in zip(outlet.uid, so) if s - L > 0]
        fb, ob = recs(fluid), recs(outlet)
        io.update(0.0, 0.1, 1)
        cases += 1
        fa, oa = recs(fluid), recs(outlet)
        left += len(crossing)
        if fluid.get_number_of_particles() != nf - left:
            return dict(where, update=k, problem='fluid has %d particles, '
                        'expected %d - %d left' % (
                            fluid.get_number_of_particles(), nf, left)), cases
        for u, rows in fb.items():
            if u in crossing:
                if u in fa:
                    return dict(where, update=k, uid=u, problem='a fluid '
                                'particle beyond the outlet plane is still '
                                'in the fluid'), cases
                if sorted(oa.get(u, [])) != sorted(rows):
                    return dict(where, update=k, uid=u, problem='the outlet '
                                'holds %d particle(s) with this uid, '
                                'expected 1 with the fluid values copied' %
                                len(oa.get(u, [])), outlet=oa.get(u, [])[:2],
                                expected=rows[:2]), cases
            elif fa.get(u) != rows:
                return dict(where, update=k, uid=u, problem='a fluid '
                            'particle that did not cross was changed, '
                            'duplicated or lost'), cases
        for u, rows in ob.items():
            if u in dying:
                if u in oa:
                    return dict(where, update=k, uid=u, problem='an outlet '
                                'particle beyond the far end was not '
                                'deleted'), cases
            elif oa.get(u) != rows:
                return dict(where, update=k, uid=u, problem='an outlet '
                            'particle inside the zone was changed, '
                            'duplicated or lost'), cases
        extra = set(oa) - set(ob) - set(crossing)
        if extra or (set(fa) - set(fb)):
            return dict(where, update=k, problem='unexpected new particles',
                        uids=sorted(extra | (set(fa) - set(fb)))), cases
        if ghost is not None:
            if sorted(ghost.uid.tolist()) != sorted(outlet.uid.tolist()):
                return dict(where, update=k, problem='the ghost array does '
                            'not hold the same particles as the outlet',
                            ghost=sorted(ghost.uid.tolist()),
                            outlet=sorted(outlet.uid.tolist())), cases
            if (ghost.uid != outlet.uid).any():
                return dict(where, update=k, problem='ghost and outlet '
                            'arrays are out of step (removal is by '
                            'index)'), cases
    return None, cases


def trial_length(rng):
    """the manager's own zone length for a lattice band with a random unit
    normal: nl layers spaced dx along the normal span nl * dx"""
    nrm = rng.normal(size=3)
    nrm = nrm / np.linalg.norm(nrm)
    t1 = np.cross(nrm, [0.3, 0.5, 0.7])
    t1 = t1 / np.linalg.norm(t1)
    t2 = np.cross(nrm, t1)
    dx = 0.1
    nl, nw = int(rng.randint(1, 6)), int(rng.randint(1, 5))
    D, A, B = np.meshgrid((np.arange(nl) + 0.5) * dx,
                          (np.arange(nw) - nw / 2.0) * dx,
                          (np.arange(nw) - nw / 2.0) * dx, indexing='ij')
    P = np.outer(D.ravel(), nrm) + np.outer(A.ravel(), t1) + \
        np.outer(B.ravel(), t2)
    pa = make('inlet', len(P), rng, 0, P)
    info = iom.InletInfo('inlet', normal=list(nrm), refpoint=[0.0, 0.0, 0.0])
    man = iom.InletOutletManager(['fluid'], inletinfo=[info], outletinfo=[])
    man.update_dx(dx)
    man._update_inlet_outlet_info(pa)
    if abs(info.length - nl * dx) > 1e-9:
        return dict(kind='zone length', family='manager',
                    normal=nrm.tolist(), layers=nl, spacing=dx,
                    problem='zone length computed by the manager is %r, the '
                    'layers span %r along the normal' % (
                        float(info.length), nl * dx))
    return None


bad = None
total = 0
for seed in d['seeds']:
    rng = np.random.RandomState(seed)
    for rep in range(5):
        bad = trial_length(rng)
        total += 1
        if bad:
            bad['seed'] = seed
            break
    if bad:
        break
    for fam in [None] + FAMILIES:
        for kind in ('inlet', 'outlet'):
            wg = bool(rng.rand() < 0.5) and (kind == 'inlet' or
                                             fam == 'mirror')
            f = trial_inlet if kind == 'inlet' else trial_outlet
            try:
                b, c = f(fam, rng, d.get('updates', 10), wg)
            except Exception as e:
                import traceback
                b, c = dict(kind=kind, family=fam or 'base', seed=seed,
                            error='%s: %s' % (type(e).__name__, str(e)[:300]),
                            tb=traceback.format_exc()[-600:]), 0
            total += c
            if b is not None:
                b['seed'] = seed
                bad = b
                break
        if bad:
            break
    if bad:
        break
print(json.dumps(dict(bad=bad, cases=total)))
