"""BOUNDED stand-in for C17 (run natively on the extensions built from the
working tree; never counted as proved).

For every algorithm that implements get_spatially_ordered_indices, random
single arrays in 1-3 dimensions with typed and strided properties and
Remote/Ghost-tagged particles behind the real ones are re-ordered several
times.  After every re-ordering: the index list was a permutation of 0..n-1,
the particles -- read as complete records across all properties -- are the
same multiset, the real particles are still the first num_real_particles, and
after the following update every neighbour list equals the definition.

Input (stdin, json): built, seeds, rounds.  Output: json {bad, cases}.
"""
import json
import sys

d = json.load(sys.stdin)
if d.get('built'):
    sys.path.insert(0, d['built'])
import numpy as np                                              # noqa: E402
from pysph.base.utils import get_particle_array                 # noqa: E402
from pysph.base import nnps                                     # noqa: E402
from cyarray.api import LongArray, UIntArray                    # noqa: E402

ALGS = [a for a in ('LinkedListNNPS', 'BoxSortNNPS', 'CellIndexingNNPS',
                    'OctreeNNPS', 'ZOrderNNPS',
                    'StratifiedSFCNNPS', 'CompressedOctreeNNPS',
                    'ExtendedZOrderNNPS')
        if hasattr(nnps, a)]
RS = 2.0


def records(pa):
    n = pa.get_number_of_particles()
    cols = []
    for name in sorted(pa.properties):
        st = pa.stride.get(name, 1)
        a = pa.get_carray(name).get_npy_array()
        if len(a) != n * st:
            return None, 'property %s holds %d values for %d particles of ' \
                'stride %d' % (name, len(a), n, st)
        cols.append(a.reshape(n, st).astype(float))
    return np.hstack(cols), None


def brute(pa, i):
    G = {k: pa.get(k, only_real_particles=False) for k in 'xyzh'}
    d2 = (G['x'] - G['x'][i]) ** 2 + (G['y'] - G['y'][i]) ** 2 + \
        (G['z'] - G['z'][i]) ** 2
    c = np.maximum((RS * G['h'][i]) ** 2, (RS * G['h']) ** 2)
    inside = set(np.where(d2 < c)[0].tolist())
    tie = set(np.where(np.abs(d2 - c) <= 1e-9 * c)[0].tolist())
    return inside, tie


def one(seed, rounds):
    rng = np.random.RandomState(seed)
    cases = 0
    for alg in ALGS:
        cls = getattr(nnps, alg)
        if 'get_spatially_ordered_indices' not in dir(cls):
            continue
        dim = int(rng.randint(1, 4))
        n = int(rng.randint(1, 70))
        h = 0.1
        xyz = [rng.rand(n) if a < dim else np.zeros(n) for a in range(3)]
        pa = get_particle_array(name='p', x=xyz[0], y=xyz[1], z=xyz[2], h=h)
        pa.add_property('ident', type='long')
        pa.ident[:] = np.arange(n)
        pa.add_property('vec', stride=3)
        pa.vec[:] = np.repeat(np.arange(n) * 1.0, 3) + np.tile(
            [0.25, 0.5, 0.75], n)
        pa.add_property('ival', type='int')
        pa.ival[:] = np.arange(n) * 7
        pa.add_property('after', type='float')
        pa.after[:] = np.arange(n) * 0.5
        pa.add_property('uval', type='unsigned int')
        pa.uval[:] = np.arange(n) * 3
        nonlocal_ = int(rng.randint(0, max(1, n // 3)))
        if nonlocal_:
            tg = pa.get_carray('tag').get_npy_array()
            tg[n - nonlocal_:] = rng.choice([1, 2], nonlocal_)
        pa.align_particles()
        before, why = records(pa)
        key0 = before[np.lexsort(before.T[::-1])]
        try:
            nn = cls(dim=dim, particles=[pa], radius_scale=RS, cache=False)
        except TypeError:
            nn = cls(dim=dim, particles=[pa], radius_scale=RS)
        where = dict(algorithm=alg, dim=dim, n=n, non_local=nonlocal_,
                     seed=seed)
        for rnd in range(rounds):
            cases += 1
            ind = LongArray()
            nn.set_context(0, 0)
            try:
                nn.get_spatially_ordered_indices(0, ind)
            except NotImplementedError:
                break          # this class does not support re-ordering
            got = sorted(ind.get_npy_array().tolist())
            if got != list(range(n)):
                return dict(where, round=rnd, problem='ordered indices are '
                            'not a permutation of 0..n-1',
                            indices=ind.get_npy_array().tolist()[:40]), cases
            nn.spatially_order_particles(0)
            now, why = records(pa)
            if why:
                return dict(where, round=rnd, problem=why), cases
            key1 = now[np.lexsort(now.T[::-1])]
            if key1.shape != key0.shape or not (key1 == key0).all():
                return dict(where, round=rnd, problem='the particles are '
                            'not the same multiset of whole records after '
                            're-ordering'), cases
            tag = pa.get('tag', only_real_particles=False)
            nr = pa.num_real_particles
            if nr != n - nonlocal_ or (tag[:nr] != 0).any():
                return dict(where, round=rnd, problem='non-local particles '
                            'among the first num_real_particles after '
                            're-ordering', tags=tag.tolist()[:40],
                            num_real_particles=int(nr)), cases
            nn.update()
            nb = UIntArray()
            for i in range(n):
                nn.get_nearest_particles(0, 0, i, nb)
                g = nb.get_npy_array().tolist()
                exp, tie = brute(pa, i)
                if len(g) != len(set(g)) or any(j >= n for j in g) or \
                        (set(g) ^ exp) - tie:
                    return dict(where, round=rnd, problem='neighbour list '
                                'of particle %d wrong after the update that '
                                'follows re-ordering' % i,
                                missing=sorted(exp - set(g) - tie)[:5],
                                extra=sorted(set(g) - exp - tie)[:5]), cases
            # move a little so that the next order differs
            for a, k in enumerate('xyz'):
                if a < dim:
                    arr = pa.get_carray(k).get_npy_array()
                    arr += rng.uniform(-0.05, 0.05, n)
            nn.update()
            before, why = records(pa)
            key0 = before[np.lexsort(before.T[::-1])]
    return None, cases


def solver_reorder(seed):
    """Solver.reorder_particles at the end of a step: the step's last
    nnps.update() is followed by update_domain() (ghosts re-created) before
    the solver re-orders.  Run in a child process: a stale ordering reads
    outside its index list."""
    import os
    rd, wr = os.pipe()
    pid = os.fork()
    if pid == 0:
        os.close(rd)
        msg = ''
        try:
            from pysph.solver.solver import Solver
            rng = np.random.RandomState(seed)
            n = 150
            pa = get_particle_array(name='p', x=rng.rand(n), y=rng.rand(n),
                                    h=0.05 * np.ones(n))
            pa.add_property('ident', type='long')
            pa.ident[:] = np.arange(n)
            dm = nnps.DomainManager(xmin=0, xmax=1, ymin=0, ymax=1,
                                    periodic_in_x=True, periodic_in_y=True)
            nn = nnps.LinkedListNNPS(dim=2, particles=[pa], domain=dm)
            sv = Solver.__new__(Solver)
            sv.particles = [pa]
            sv.nnps = nn
            for rnd in range(3):
                pa.x[:] = pa.x + rng.uniform(-0.06, 0.06, n)
                pa.y[:] = pa.y + rng.uniform(-0.06, 0.06, n)
                nn.update_domain()          # as Integrator.update_domain
                before = sorted(zip(pa.ident.tolist(), pa.x.tolist(),
                                    pa.y.tolist()))
                sv.reorder_particles()
                after = sorted(zip(pa.ident.tolist(), pa.x.tolist(),
                                   pa.y.tolist()))
                if before != after or len(pa.x) != n:
                    msg = 'real particles are not the same multiset after ' \
                        'Solver.reorder_particles (round %d): %d real ' \
                        'particles, %d distinct ids' % (
                            rnd, len(pa.x), len(set(pa.ident.tolist())))
                    break
        except Exception as e:
            msg = 'raised %s: %s' % (type(e).__name__, str(e)[:200])
        os.write(wr, msg.encode()[:900])
        os._exit(1 if msg else 0)
    os.close(wr)
    _, status = os.waitpid(pid, 0)
    msg = os.read(rd, 1000).decode()
    os.close(rd)
    if os.WIFSIGNALED(status):
        return dict(algorithm='LinkedListNNPS', problem='Solver.'
                    'reorder_particles after update_domain() on a doubly '
                    'periodic box: process killed by signal %d' %
                    os.WTERMSIG(status), seed=seed)
    if os.WEXITSTATUS(status) != 0:
        return dict(algorithm='LinkedListNNPS', problem='Solver.'
                    'reorder_particles after update_domain() on a doubly '
                    'periodic box: ' + msg, seed=seed)
    return None


bad = None
total = 0
for seed in d['seeds'][:3]:
    bad = solver_reorder(seed)
    total += 1
    if bad:
        break
for seed in (d['seeds'] if bad is None else []):
    b, c = one(seed, d.get('rounds', 3))
    total += c
    if b is not None:
        bad = b
        break
print(json.dumps(dict(bad=bad, cases=total, algorithms=ALGS)))
