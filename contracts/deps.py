"""Re-proving, inside one property's check, the contracts it assumes from
another property's check: task ids 'dep:<Cxx>:<task>' run that task of the
other contract module and prefix the obligation names with dep.<cxx>."""
import importlib


def run_dep(task, ctx):
    _, mod, t = task.split(':', 2)
    cm = importlib.import_module('contracts.' + mod)
    n0, b0 = len(ctx.results), len(ctx.bounded)
    cm.run_task(t, ctx)
    for r in ctx.results[n0:]:
        r['name'] = 'dep.%s.%s' % (mod.lower(), r['name'])
    for b in ctx.bounded[b0:]:
        b['name'] = 'dep.%s.%s' % (mod.lower(), b['name'])
