"""Re-proving, inside one property's check, the contracts it assumes from
another property's check: task ids 'dep:<Cxx>:<task>' run that task of the
other contract module and prefix the obligation names with dep.<cxx>."""
import importlib


def run_dep(task, ctx):
    _, mod, t = task.split(':', 2)
    cm = importlib.import_module('contracts.' + mod)
    n0, b0 = len(ctx.results), len(ctx.bounded)
    cm.run_task(t, ctx)
    # an obligation that is an OPEN known finding of the other property is
    # not something this check can lean on, and it is that property's check
    # that reports it: it is not re-claimed here (listed in the notes)
    import json
    import os
    import re
    here = os.path.dirname(os.path.dirname(os.path.abspath(__file__)))
    try:
        kf = json.load(open(os.path.join(here, 'known_findings.json')))
        opens = [f for f in kf['findings'] if f['property'] == mod and
                 f['status'] == 'open']
    except Exception:
        opens = []

    def is_open(name):
        for f in opens:
            if f.get('obligation') == name:
                return True
            if f.get('obligation_re') and re.fullmatch(f['obligation_re'],
                                                       name):
                return True
        return False
    keep = []
    for r in ctx.results[n0:]:
        if r.get('verdict') != 'proved' and is_open(r['name']):
            ctx.note('dep %s: %s is an open finding of %s, reported by its '
                     'own check; not relied upon here' % (task, r['name'],
                                                          mod))
            continue
        r['name'] = 'dep.%s.%s' % (mod.lower(), r['name'])
        keep.append(r)
    ctx.results[n0:] = keep
    for b in ctx.bounded[b0:]:
        b['name'] = 'dep.%s.%s' % (mod.lower(), b['name'])


def lean_lemma(ctx, fname, theorems, name):
    """A glue lemma that is mathematics, not code: lemmas/<fname>.  Quick
    tier: the file states the named theorems and contains no
    sorry/axiom/admit.  Thorough tier: compiled by Lean 4 + Mathlib."""
    import os
    import re
    import subprocess
    import z3
    from pyvc.symexec import Obligation
    here = os.path.dirname(os.path.dirname(os.path.abspath(__file__)))
    path = os.path.join(here, 'lemmas', fname)
    try:
        src = open(path).read()
    except OSError:
        src = ''
    code = re.sub(r'/-.*?-/', '', src, flags=re.S)
    code = re.sub(r'--.*', '', code)
    ok = all(('theorem ' + t) in code for t in theorems) and not re.search(
        r'\b(sorry|axiom|admit|native_decide)\b', code)
    obs = [Obligation(name + '.stated_without_sorry', [], z3.BoolVal(
        bool(ok)), path)]
    if ctx.tier == 'thorough':
        try:
            p_ = subprocess.run(['lean', path], capture_output=True,
                                text=True, timeout=1800,
                                cwd=os.path.dirname(path))
            good = p_.returncode == 0 and 'error' not in (p_.stdout +
                                                          p_.stderr)
            out = (p_.stdout + p_.stderr)[-300:]
        except Exception as e:
            good, out = False, str(e)[-200:]
        obs.append(Obligation(name + '.compiled_by_lean', [], z3.BoolVal(
            bool(good)), path, extra=dict(lean_output=out)))
    else:
        ctx.note('lemmas/%s is compiled by Lean only in the thorough tier'
                 % fname)
    ctx.prove(name, obs)
