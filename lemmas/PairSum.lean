/-
Glue lemma of C09 (momentum conservation): the contracts proved on the real
`loop` bodies say that the pair term is antisymmetric, m_a da_a(b) = - m_b da_b(a).
Summed over a symmetric neighbour relation (C01) the total vanishes.
-/
import Mathlib

open Finset BigOperators

/-- an antisymmetric pair term sums to zero over all ordered pairs -/
theorem pair_sum_zero {ι : Type*} [Fintype ι] (f : ι → ι → ℝ)
    (h : ∀ i j, f i j = - f j i) : ∑ i, ∑ j, f i j = 0 := by
  have h1 : ∑ i, ∑ j, f i j = - ∑ i, ∑ j, f j i := by
    rw [← Finset.sum_neg_distrib]
    apply Finset.sum_congr rfl
    intro i _
    rw [← Finset.sum_neg_distrib]
    apply Finset.sum_congr rfl
    intro j _
    exact h i j
  have h2 : ∑ i, ∑ j, f j i = ∑ i, ∑ j, f i j := Finset.sum_comm
  linarith

/-- the same restricted to a symmetric neighbour relation: only neighbours
interact, `nbr` is symmetric (C01: j is a neighbour of i iff i is one of j) -/
theorem pair_sum_zero_on_neighbours {ι : Type*} [Fintype ι]
    (nbr : ι → ι → Prop) [∀ i j, Decidable (nbr i j)] (g : ι → ι → ℝ)
    (hs : ∀ i j, nbr i j ↔ nbr j i) (ha : ∀ i j, g i j = - g j i) :
    ∑ i, ∑ j, (if nbr i j then g i j else 0) = 0 := by
  apply pair_sum_zero
  intro i j
  by_cases hij : nbr i j
  · have hji : nbr j i := (hs i j).mp hij
    simp [hij, hji, ha i j]
  · have hji : ¬ nbr j i := fun h => hij ((hs i j).mpr h)
    simp [hij, hji]

/-- vector form used for the angular clause: if every pair torque is zero
the total torque is zero (trivial, recorded for completeness) -/
theorem torque_sum_zero {ι : Type*} [Fintype ι] (τ : ι → ι → ℝ)
    (h : ∀ i j, τ i j + τ j i = 0) : ∑ i, ∑ j, τ i j = 0 := by
  apply pair_sum_zero
  intro i j
  linarith [h i j]
