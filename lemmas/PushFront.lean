/-
Glue lemma of C01 / C17 (linked-list neighbour search).

The contracts proved on the real code say:
  * `_refresh` leaves every `head` and `next` entry empty (UINT_MAX = none);
  * one `_bin` step for particle `i` with cell `c i` is a push-front:
      next[i] := head[c i];  head[c i] := i;  nothing else changes;
  * the walk of a cell starts at `head[cell]`, emits the current node and
    follows `next` until it meets the empty marker.
This file proves the step from those contracts to the property: after binning
the particles 0 .. n-1 the walk of cell `k` emits exactly the particles whose
cell is `k`, each once, so walking all cells yields every particle once.
-/
import Mathlib

namespace PushFront

/-- `a` is followed in `nx` by exactly the nodes of `l`, then by the marker -/
def LinkedFrom (nx : ℕ → Option ℕ) : ℕ → List ℕ → Prop
  | a, [] => nx a = none
  | a, b :: bs => nx a = some b ∧ LinkedFrom nx b bs

/-- the chain that starts at `h` is the list `l` -/
def Chain (nx : ℕ → Option ℕ) (h : Option ℕ) : List ℕ → Prop
  | [] => h = none
  | a :: as => h = some a ∧ LinkedFrom nx a as

/-- representation invariant: for every cell the chain from its head is the
ghost list of that cell -/
def Repr (head nx : ℕ → Option ℕ) (L : ℕ → List ℕ) : Prop :=
  ∀ k, Chain nx (head k) (L k)

/-- `LinkedFrom` only reads `nx` at the nodes of the chain -/
theorem linkedFrom_congr (nx nx' : ℕ → Option ℕ) :
    ∀ (l : List ℕ) (a : ℕ), (nx' a = nx a) → (∀ x ∈ l, nx' x = nx x) →
      LinkedFrom nx a l → LinkedFrom nx' a l
  | [], a, ha, _, h => by
      simp only [LinkedFrom] at h ⊢
      rw [ha]; exact h
  | b :: bs, a, ha, hl, h => by
      simp only [LinkedFrom] at h ⊢
      refine ⟨by rw [ha]; exact h.1, ?_⟩
      apply linkedFrom_congr nx nx' bs b
      · exact hl b (List.mem_cons_self)
      · intro x hx; exact hl x (List.mem_cons_of_mem _ hx)
      · exact h.2

theorem chain_congr (nx nx' : ℕ → Option ℕ) (h : Option ℕ) (l : List ℕ)
    (hl : ∀ x ∈ l, nx' x = nx x) : Chain nx h l → Chain nx' h l := by
  cases l with
  | nil => intro hc; exact hc
  | cons a as =>
    intro hc
    simp only [Chain] at hc ⊢
    refine ⟨hc.1, ?_⟩
    apply linkedFrom_congr nx nx' as a
    · exact hl a (List.mem_cons_self)
    · intro x hx; exact hl x (List.mem_cons_of_mem _ hx)
    · exact hc.2

/-- one `_bin` step (the contract proved on the code) -/
def binHead (head : ℕ → Option ℕ) (c : ℕ → ℕ) (i : ℕ) : ℕ → Option ℕ :=
  fun k => if k = c i then some i else head k

def binNext (head nx : ℕ → Option ℕ) (c : ℕ → ℕ) (i : ℕ) : ℕ → Option ℕ :=
  fun x => if x = i then head (c i) else nx x

def binList (L : ℕ → List ℕ) (c : ℕ → ℕ) (i : ℕ) : ℕ → List ℕ :=
  fun k => if k = c i then i :: L k else L k

/-- the push-front step preserves the representation invariant, provided the
particle being binned is not in any list yet -/
theorem repr_step (head nx : ℕ → Option ℕ) (L : ℕ → List ℕ) (c : ℕ → ℕ)
    (i : ℕ) (fresh : ∀ k, ∀ x ∈ L k, x ≠ i) (h : Repr head nx L) :
    Repr (binHead head c i) (binNext head nx c i) (binList L c i) := by
  intro k
  have agree : ∀ k', ∀ x ∈ L k', binNext head nx c i x = nx x := by
    intro k' x hx
    simp [binNext, fresh k' x hx]
  by_cases hk : k = c i
  · subst hk
    simp only [binHead, binList, if_true]
    simp only [Chain]
    refine ⟨trivial, ?_⟩
    have hc := h (c i)
    cases hL : L (c i) with
    | nil =>
      rw [hL] at hc
      simp only [Chain] at hc
      simp [LinkedFrom, binNext, hc]
    | cons a as =>
      rw [hL] at hc
      simp only [Chain] at hc
      simp only [LinkedFrom]
      refine ⟨by simp [binNext, hc.1], ?_⟩
      apply linkedFrom_congr nx _ as a
      · apply agree (c i) a; rw [hL]; exact List.mem_cons_self
      · intro x hx; apply agree (c i) x; rw [hL]
        exact List.mem_cons_of_mem _ hx
      · exact hc.2
  · simp only [binHead, binList, hk, if_false]
    exact chain_congr nx _ (head k) (L k) (agree k) (h k)

/-- state after binning the particles `0 .. n-1` in this order, starting from
the empty structure left by `_refresh` -/
def build (c : ℕ → ℕ) : ℕ → (ℕ → Option ℕ) × (ℕ → Option ℕ) × (ℕ → List ℕ)
  | 0 => (fun _ => none, fun _ => none, fun _ => [])
  | n + 1 =>
    let s := build c n
    (binHead s.1 c n, binNext s.1 s.2.1 c n, binList s.2.2 c n)

/-- the ghost lists hold exactly the particles binned so far, by cell -/
theorem lists_content (c : ℕ → ℕ) : ∀ n k x,
    x ∈ (build c n).2.2 k ↔ x < n ∧ c x = k
  | 0, k, x => by simp [build]
  | n + 1, k, x => by
    have ih := lists_content c n
    simp only [build, binList]
    by_cases hk : k = c n
    · subst hk
      simp only [if_true, List.mem_cons, ih]
      constructor
      · rintro (h | h)
        · subst h; exact ⟨Nat.lt_succ_self _, rfl⟩
        · exact ⟨Nat.lt_succ_of_lt h.1, h.2⟩
      · rintro ⟨h1, h2⟩
        rcases Nat.lt_succ_iff_lt_or_eq.mp h1 with h | h
        · exact Or.inr ⟨h, h2⟩
        · exact Or.inl h
    · simp only [hk, if_false, ih]
      constructor
      · rintro ⟨h1, h2⟩; exact ⟨Nat.lt_succ_of_lt h1, h2⟩
      · rintro ⟨h1, h2⟩
        rcases Nat.lt_succ_iff_lt_or_eq.mp h1 with h | h
        · exact ⟨h, h2⟩
        · subst h; exact absurd h2.symm hk

/-- no particle occurs twice in a list -/
theorem lists_nodup (c : ℕ → ℕ) : ∀ n k, ((build c n).2.2 k).Nodup
  | 0, k => by simp [build]
  | n + 1, k => by
    have ih := lists_nodup c n k
    simp only [build, binList]
    by_cases hk : k = c n
    · subst hk
      simp only [if_true, List.nodup_cons]
      refine ⟨?_, ih⟩
      intro hmem
      have := (lists_content c n (c n) n).mp hmem
      exact Nat.lt_irrefl _ this.1
    · simp only [hk, if_false]; exact ih

/-- the representation invariant holds after any number of bin steps -/
theorem repr_build (c : ℕ → ℕ) : ∀ n,
    Repr (build c n).1 (build c n).2.1 (build c n).2.2
  | 0 => by intro k; simp [build, Chain]
  | n + 1 => by
    have ih := repr_build c n
    simp only [build]
    apply repr_step
    · intro k x hx hxn
      have := (lists_content c n k x).mp hx
      subst hxn
      exact Nat.lt_irrefl _ this.1
    · exact ih

/-- Summary: after `_refresh` and the `_bin` steps for 0 .. n-1, the chain from
`head[k]` through `next` is a duplicate-free list of exactly the particles
`x < n` with `c x = k`. -/
theorem linked_list_represents_cells (c : ℕ → ℕ) (n k : ℕ) :
    Chain (build c n).2.1 ((build c n).1 k) ((build c n).2.2 k) ∧
    ((build c n).2.2 k).Nodup ∧
    ∀ x, x ∈ (build c n).2.2 k ↔ x < n ∧ c x = k :=
  ⟨repr_build c n k, lists_nodup c n k, lists_content c n k⟩

end PushFront
