"""Abstracting executor: every loop is cut with the invariant `true` (the
variables assigned in its body become arbitrary), a statement the VC
generator cannot model is replaced by `its targets become unknown`, a branch
on an unknown condition is taken both ways.  Every path of the real function
is covered by some abstract path (over-approximation), so a safety obligation
(`whenever this call happens, P holds of its argument`) proved on all abstract
paths holds of the real code.  What is dropped is listed in `.abstracted`.

Assumed of abstracted calls: they do not write locals of the caller or the
coordinate / smoothing-length arrays (C functions receiving values).
"""
import ast
import z3

from . import sym as S
from .sym import VCError
from .symexec import (Executor, _Poison, SymArray, SymObject, _Range,
                      _DeadPath, _RaiseSignal)


class AbstractExecutor(Executor):
    def __init__(self, *a, int_names=(), protected=(), **k):
        super().__init__(*a, **k)
        self.int_names = set(int_names)      # unknown values used as indices
        self.protected = set(protected)      # arrays that must not be stored
        self.abstracted = []
        self.merge = False

    # ------------------------------------------------------------ helpers
    def unknown(self, name):
        if name in self.int_names:
            return S.fresh(name, 'int')
        return _Poison(name)

    def _targets(self, node):
        if isinstance(node, ast.Assign):
            return node.targets
        if isinstance(node, (ast.AugAssign, ast.AnnAssign)):
            return [node.target]
        return []

    def _abstract_stmt(self, node, st, why):
        self.abstracted.append('%s: %s' % (self.where(node), str(why)[:80]))
        for t in self._targets(node):
            for e in ([t] if not isinstance(t, (ast.Tuple, ast.List))
                      else t.elts):
                if isinstance(e, ast.Name):
                    st.env[e.id] = self.unknown(e.id)
                elif isinstance(e, ast.Starred):
                    raise VCError('starred target')
                else:
                    base = e
                    while isinstance(base, (ast.Subscript, ast.Attribute)):
                        base = base.value
                    nm = base.id if isinstance(base, ast.Name) else None
                    if nm in self.protected or nm == 'self':
                        raise VCError('store to protected %s at %s' % (
                            nm, self.where(node)))
        return [(st, None)]

    def exec_stmt(self, node, st):
        if isinstance(node, (ast.Assign, ast.AugAssign, ast.AnnAssign,
                             ast.Expr)):
            snap = st.clone()
            try:
                return super().exec_stmt(node, st)
            except VCError as e:
                return self._abstract_stmt(node, snap, e)
        return super().exec_stmt(node, st)

    # ------------------------------------------------------------ branches
    def stmt_If(self, node, st):
        snap = st.clone()
        try:
            conds = list(self.eval_forking(node.test, st))
        except VCError as e:
            self.abstracted.append('%s: branch on unknown condition' %
                                   self.where(node))
            out = []
            out.extend(self.exec_block(node.body, snap.clone()))
            out.extend(self.exec_block(node.orelse, snap))
            return out
        out = []
        for s1, c in conds:
            c = S.simp(S.to_bool(c))
            if c is True or c is False:
                out.extend(self.exec_block(node.body if c else node.orelse,
                                           s1))
                continue
            st_t = s1.clone()
            st_t.pc.append(c)
            if self.feasible(st_t.pc):
                out.extend(self.exec_block(node.body, st_t))
            s1.pc.append(z3.Not(c))
            if self.feasible(s1.pc):
                out.extend(self.exec_block(node.orelse, s1))
        return out

    # --------------------------------------------------------------- loops
    def _havoc_loop(self, node, st):
        names, attrs, subs = self.assigned_names(node.body)
        h = st.clone()
        for n in sorted(names):
            v = h.env.get(n)
            try:
                h.env[n] = self.havoc_value(v, n) if v is not None and \
                    not isinstance(v, _Poison) else self.unknown(n)
            except VCError:
                h.env[n] = self.unknown(n)
        for sname in subs:
            nm = sname if isinstance(sname, str) else sname[0]
            if nm in self.protected:
                raise VCError('loop stores to protected array %s' % nm)
            if isinstance(sname, str) and isinstance(h.env.get(sname),
                                                     SymArray):
                h.env[sname] = self.havoc_value(h.env[sname], sname)
        return h

    def stmt_For(self, node, st):
        h = self._havoc_loop(node, st)
        body = h.clone()
        # the loop variable: arbitrary; constrained by the range when it can
        # be evaluated
        tgt = node.target
        try:
            it = self.eval(node.iter, body)
        except VCError:
            it = None
        conc = None
        if isinstance(tgt, ast.Name) and isinstance(it, _Range) and \
                all(isinstance(x, int) for x in (it.start, it.stop,
                                                 it.step)) and \
                0 < len(range(it.start, it.stop, it.step)) <= 8:
            # a short concrete range: each value separately, every time from
            # the arbitrary loop state
            conc = list(range(it.start, it.stop, it.step))
        if conc is not None:
            out = []
            for v in conc:
                b = h.clone()
                b.env[tgt.id] = v
                for s3, sig in self.exec_block(node.body, b):
                    if sig is not None and sig[0] in ('return', 'raise'):
                        out.append((s3, sig))
            h.env[tgt.id] = conc[-1]
            out.extend(self.exec_block(node.orelse, h))
            return out
        if isinstance(tgt, ast.Name):
            iv = S.fresh(tgt.id, 'int')
            if isinstance(it, _Range) and it.step == 1:
                body.pc.append(S.to_z3(S.cmp('>=', iv, it.start)))
                body.pc.append(S.to_z3(S.cmp('<', iv, it.stop)))
                body.env[tgt.id] = iv
            elif isinstance(it, (list, tuple)) and it and \
                    all(S.is_sym(x) or isinstance(x, int) for x in it):
                body.pc.append(z3.Or(*[iv == S.to_z3(x) for x in it]))
                body.env[tgt.id] = iv
            else:
                body.env[tgt.id] = self.unknown(tgt.id)
            h.env[tgt.id] = self.unknown(tgt.id) if tgt.id not in \
                self.int_names else S.fresh(tgt.id, 'int')
        else:
            for e in ast.walk(tgt):
                if isinstance(e, ast.Name):
                    body.env[e.id] = self.unknown(e.id)
                    h.env[e.id] = self.unknown(e.id)
        out = []
        for s3, sig in self.exec_block(node.body, body):
            if sig is not None and sig[0] in ('return', 'raise'):
                out.append((s3, sig))
        out.extend(self.exec_block(node.orelse, h))
        return out

    def stmt_While(self, node, st):
        h = self._havoc_loop(node, st)
        body = h.clone()
        try:
            c = S.to_bool(self.eval(node.test, body))
            if c is False:
                body = None
            elif c is not True:
                body.pc.append(c)
        except VCError:
            self.abstracted.append('%s: loop guard unknown' %
                                   self.where(node))
        out = []
        if body is not None:
            for s3, sig in self.exec_block(node.body, body):
                if sig is not None and sig[0] in ('return', 'raise'):
                    out.append((s3, sig))
        out.extend(self.exec_block(node.orelse, h))
        return out
