"""Back ends that discharge an Obligation (hyps |- goal).

Order: NF (exact rational-function normal form via sympy, equalities only),
z3 (after abstracting sqrt/exp/pow/... applications to fresh reals with
per-occurrence axioms, so the query is plain non-linear real arithmetic),
cvc5 CLI on z3's `unknown`.  Verdicts: proved | refuted (with model) |
unknown.  A time-out or solver error is `unknown`, never `refuted`.
"""
import os
import subprocess
import tempfile
import time
from fractions import Fraction

import z3

from . import sym as S

UF_NAMES = set(f.name() for f in S.UF.values())


class Result(object):
    def __init__(self, verdict, backend, seconds, model=None, note=''):
        self.verdict = verdict      # 'proved' | 'refuted' | 'unknown'
        self.backend = backend
        self.seconds = seconds
        self.model = model or {}
        self.note = note

    def as_dict(self):
        return dict(verdict=self.verdict, backend=self.backend,
                    seconds=round(self.seconds, 4), model=self.model,
                    note=self.note)


# ------------------------------------------------------------ UF abstraction
class Abstraction(object):
    def __init__(self):
        self.apps = {}     # (fname, arg sexprs) -> (var, [abstracted args])
        self.order = []
        self.uses_pi = False
        self.cache = {}

    def abstract(self, e):
        k = e.get_id()
        if k in self.cache:
            return self.cache[k][1]
        r = self._abstract(e)
        self.cache[k] = (e, r)      # keep e alive: ids are reused after GC
        return r

    def _abstract(self, e):
        if z3.is_const(e):
            if e.decl().kind() == z3.Z3_OP_UNINTERPRETED and str(e) == 'pi':
                self.uses_pi = True
            return e
        if z3.is_quantifier(e):
            body = self.abstract(e.body())
            if body.eq(e.body()):
                return e
            raise S.VCError('uninterpreted function under quantifier')
        if z3.is_var(e):
            return e
        kids = [self.abstract(c) for c in e.children()]
        d = e.decl()
        if d.kind() == z3.Z3_OP_UNINTERPRETED and d.name() in UF_NAMES:
            key = (d.name(),) + tuple(k.sexpr() for k in kids)
            if key not in self.apps:
                v = z3.Real('%s#%d' % (d.name(), len(self.apps)))
                self.apps[key] = (v, kids)
                self.order.append(key)
            return self.apps[key][0]
        if all(a.eq(b) for a, b in zip(kids, e.children())):
            return e
        return d(*kids)

    def axioms(self):
        ax = []
        if self.uses_pi:
            ax.append(S.PI > z3.RealVal('3.14159265358979'))
            ax.append(S.PI < z3.RealVal('3.14159265358980'))
        byf = {}
        for key in self.order:
            byf.setdefault(key[0], []).append(self.apps[key])
        for fname, lst in byf.items():
            for (v, args) in lst:
                a = args[0]
                if fname == 'sqrt':
                    ax.append(v >= 0)
                    ax.append(z3.Implies(a >= 0, v * v == a))
                    ax.append(z3.Implies(a > 0, v > 0))
                elif fname == 'exp':
                    ax.append(v > 0)
                    ax.append(z3.Implies(a == 0, v == 1))
                    ax.append(z3.Implies(a < 0, v < 1))
                    ax.append(z3.Implies(a > 0, v > 1))
                elif fname in ('sin', 'cos', 'tanh', 'erf'):
                    ax.append(v >= -1)
                    ax.append(v <= 1)
                elif fname == 'pow':
                    ax.append(z3.Implies(a > 0, v > 0))
                    ax.append(z3.Implies(args[1] == 0, v == 1))
                    ax.append(z3.Implies(args[1] == 1, v == a))
                    ax.append(z3.Implies(a == 1, v == 1))
                elif fname == 'floorf':
                    ax.append(v <= a)
                    ax.append(a < v + 1)
            # pairwise: congruence and monotonicity
            for i in range(len(lst)):
                for j in range(i + 1, len(lst)):
                    (v1, a1), (v2, a2) = lst[i], lst[j]
                    same = z3.And(*[x == y for x, y in zip(a1, a2)])
                    ax.append(z3.Implies(same, v1 == v2))
                    if fname == 'sqrt':
                        ax.append(z3.Implies(z3.And(a1[0] >= 0,
                                                    a1[0] < a2[0]), v1 < v2))
                        ax.append(z3.Implies(z3.And(a2[0] >= 0,
                                                    a2[0] < a1[0]), v2 < v1))
                    elif fname in ('exp', 'tanh', 'erf', 'atan'):
                        ax.append(z3.Implies(a1[0] < a2[0], v1 < v2))
                        ax.append(z3.Implies(a2[0] < a1[0], v2 < v1))
                    elif fname == 'floorf':
                        ax.append(z3.Implies(a1[0] <= a2[0], v1 <= v2))
                        ax.append(z3.Implies(a2[0] <= a1[0], v2 <= v1))
        # sin/cos of the same argument
        sins = {tuple(k[1:]): self.apps[k][0] for k in self.order
                if k[0] == 'sin'}
        for k in self.order:
            if k[0] == 'cos' and tuple(k[1:]) in sins:
                c = self.apps[k][0]
                s = sins[tuple(k[1:])]
                ax.append(c * c + s * s == 1)
        return ax


def extra_axioms_for(ob):
    return list(ob.extra.get('axioms', [])) if ob.extra else []


_sk = [0]


def skolemize_goal(g):
    """A goal `forall x. P(x)` is valid iff P(c) is for a fresh constant c
    (also under conjunctions)."""
    if z3.is_quantifier(g) and g.is_forall():
        vs = []
        for i in range(g.num_vars()):
            _sk[0] += 1
            vs.append(z3.Const('sk!%d_%s' % (_sk[0], g.var_name(i)),
                               g.var_sort(i)))
        return skolemize_goal(z3.substitute_vars(g.body(), *reversed(vs)))
    if z3.is_and(g):
        return z3.And(*[skolemize_goal(c) for c in g.children()])
    if z3.is_implies(g):
        return z3.Implies(g.children()[0], skolemize_goal(g.children()[1]))
    return g


def build_query(ob, negate=True):
    ab = Abstraction()
    hyps = [ab.abstract(h) for h in ob.hyps]
    goal = ab.abstract(skolemize_goal(ob.goal) if negate else ob.goal)
    extra = [ab.abstract(a) for a in extra_axioms_for(ob)]
    fs = hyps + extra + ab.axioms()
    fs.append(z3.Not(goal) if negate else goal)
    return fs, ab


def model_to_dict(m, ab=None):
    out = {}
    for d in m.decls():
        n = d.name()
        if d.arity() != 0:
            continue
        v = m[d]
        try:
            if z3.is_int_value(v):
                out[n] = v.as_long()
            elif z3.is_rational_value(v):
                out[n] = '%d/%d' % (v.numerator_as_long(),
                                    v.denominator_as_long())
            elif z3.is_algebraic_value(v):
                a = v.approx(20)
                out[n] = '%d/%d' % (a.numerator_as_long(),
                                    a.denominator_as_long())
            elif z3.is_true(v) or z3.is_false(v):
                out[n] = bool(z3.is_true(v))
            else:
                out[n] = str(v)
        except Exception:
            out[n] = str(v)
    return out


def frac(s):
    """Model value -> Fraction."""
    if isinstance(s, bool):
        return s
    if isinstance(s, int):
        return Fraction(s)
    return Fraction(s)


def z3_prove(ob, timeout_ms=20000, seed=0):
    t0 = time.time()
    try:
        fs, ab = build_query(ob)
    except S.VCError as e:
        return Result('unknown', 'z3', time.time() - t0, note=str(e))
    s = z3.Solver()
    s.set('timeout', timeout_ms)
    s.set('random_seed', seed)
    for f in fs:
        s.add(f)
    try:
        r = s.check()
    except z3.Z3Exception as e:
        return Result('unknown', 'z3', time.time() - t0, note=str(e))
    dt = time.time() - t0
    if r == z3.unsat:
        return Result('proved', 'z3', dt)
    if r == z3.sat:
        return Result('refuted', 'z3', dt, model_to_dict(s.model(), ab))
    # second attempt: nlsat-flavoured tactic
    try:
        t = z3.TryFor(z3.Then('simplify', 'purify-arith', 'propagate-values',
                              'solve-eqs', 'qfnra-nlsat'),
                      timeout_ms)
        s2 = t.solver()
        for f in fs:
            s2.add(f)
        r2 = s2.check()
        dt = time.time() - t0
        if r2 == z3.unsat:
            return Result('proved', 'z3-nlsat', dt)
        if r2 == z3.sat:
            return Result('refuted', 'z3-nlsat', dt,
                          model_to_dict(s2.model(), ab))
    except z3.Z3Exception:
        pass
    return Result('unknown', 'z3', time.time() - t0,
                  note=str(s.reason_unknown()))


def to_smt2(fs):
    s = z3.Solver()
    for f in fs:
        s.add(f)
    return s.to_smt2()


def cvc5_prove(ob, timeout_ms=20000):
    t0 = time.time()
    try:
        fs, ab = build_query(ob)
    except S.VCError as e:
        return Result('unknown', 'cvc5', 0.0, note=str(e))
    txt = to_smt2(fs)
    txt = '(set-logic ALL)\n' + txt
    fd, path = tempfile.mkstemp(suffix='.smt2', prefix='pyvc_')
    try:
        with os.fdopen(fd, 'w') as f:
            f.write(txt)
        try:
            p = subprocess.run(
                ['/usr/bin/cvc5', '--lang=smt2', '--nl-ext-tplanes',
                 '--tlimit=%d' % timeout_ms, path],
                capture_output=True, text=True,
                timeout=timeout_ms / 1000.0 + 10)
            out = p.stdout.strip().split('\n')[0] if p.stdout else ''
        except subprocess.TimeoutExpired:
            out = 'timeout'
    finally:
        os.unlink(path)
    dt = time.time() - t0
    if out == 'unsat':
        return Result('proved', 'cvc5', dt)
    if out == 'sat':
        # cvc5's model is not parsed back; ask z3 for a model separately
        return Result('unknown', 'cvc5', dt, note='cvc5 says sat')
    return Result('unknown', 'cvc5', dt, note=out[:200])


# ---------------------------------------------------------------- NF (sympy)
def positive_vars(hyps):
    """Names of real constants the hypotheses state to be > 0."""
    out = set()

    def isvar(x):
        return z3.is_const(x) and x.decl().kind() == z3.Z3_OP_UNINTERPRETED

    def num(x):
        if z3.is_rational_value(x) or z3.is_int_value(x):
            return S.simp(x)
        return None
    for h in hyps:
        for c in (h.children() if z3.is_and(h) else [h]):
            neg = False
            if z3.is_not(c):
                neg = True
                c = c.children()[0]
            if not (z3.is_gt(c) or z3.is_lt(c) or z3.is_ge(c) or
                    z3.is_le(c)):
                continue
            a, b = c.children()
            k = c.decl().kind()
            # normalise to  var OP const
            if isvar(b) and num(a) is not None:
                a, b = b, a
                k = {z3.Z3_OP_GT: z3.Z3_OP_LT, z3.Z3_OP_LT: z3.Z3_OP_GT,
                     z3.Z3_OP_GE: z3.Z3_OP_LE, z3.Z3_OP_LE: z3.Z3_OP_GE}[k]
            if not isvar(a) or num(b) is None:
                continue
            if neg:
                k = {z3.Z3_OP_GT: z3.Z3_OP_LE, z3.Z3_OP_LT: z3.Z3_OP_GE,
                     z3.Z3_OP_GE: z3.Z3_OP_LT, z3.Z3_OP_LE: z3.Z3_OP_GT}[k]
            v = num(b)
            if (k == z3.Z3_OP_GT and v >= 0) or (k == z3.Z3_OP_GE and v > 0):
                out.add(str(a))
    return out


def z3_to_sympy(e, symtab=None):
    """symtab maps constant names to sympy expressions; a name mapped under
    key ('pos', name) request is handled by the caller: positive variables
    are entered as squares of positive symbols so that square roots of
    monomials in them become rational (x = r^2, r > 0 is a bijection of the
    positive reals, so identities transfer)."""
    import sympy
    symtab = symtab if symtab is not None else {}

    def conv(x):
        if z3.is_int_value(x):
            return sympy.Integer(x.as_long())
        if z3.is_rational_value(x):
            return sympy.Rational(x.numerator_as_long(),
                                  x.denominator_as_long())
        if z3.is_const(x) and x.decl().kind() == z3.Z3_OP_UNINTERPRETED:
            n = str(x)
            if n == 'pi':
                return sympy.pi
            if n not in symtab:
                if n in symtab.get('__positive__', ()):
                    symtab[n] = sympy.Symbol(n.replace('!', '_') + '_r',
                                             positive=True) ** 2
                else:
                    symtab[n] = sympy.Symbol(n.replace('!', '_'), real=True)
            return symtab[n]
        k = x.decl().kind()
        ch = x.children()
        if k == z3.Z3_OP_ADD:
            return sympy.Add(*[conv(c) for c in ch])
        if k == z3.Z3_OP_MUL:
            return sympy.Mul(*[conv(c) for c in ch])
        if k == z3.Z3_OP_SUB:
            r = conv(ch[0])
            for c in ch[1:]:
                r = r - conv(c)
            return r
        if k == z3.Z3_OP_UMINUS:
            return -conv(ch[0])
        if k == z3.Z3_OP_DIV:
            return conv(ch[0]) / conv(ch[1])
        if k == z3.Z3_OP_POWER:
            return conv(ch[0]) ** conv(ch[1])
        if k == z3.Z3_OP_TO_REAL:
            return conv(ch[0])
        if k == z3.Z3_OP_UNINTERPRETED:
            n = x.decl().name()
            # canonical form of the arguments, so that applications whose
            # arguments are equal as rational functions become one atom
            a = []
            for c in ch:
                ca = conv(c)
                try:
                    ca = sympy.cancel(ca)
                except Exception:
                    pass
                a.append(ca)
            if n == 'sqrt':
                return sympy.sqrt(a[0])
            if n == 'exp':
                return sympy.exp(a[0])
            if n == 'pow':
                return sympy.Pow(a[0], a[1])
            if n in ('sin', 'cos', 'tan', 'log', 'atan', 'acos', 'tanh',
                     'erf'):
                return getattr(sympy, n)(a[0])
            if n == 'atan2':
                return sympy.atan2(a[0], a[1])
            return sympy.Function(n)(*a)
        raise S.VCError('NF: z3 op %s' % x.decl().name())
    return conv(e)


def nf_is_zero(expr):
    import sympy
    if expr == 0:
        return True
    e = sympy.together(expr)
    num = sympy.numer(e)
    num = sympy.expand(num)
    if num == 0:
        return True
    try:
        if sympy.simplify(num) == 0:
            return True
    except Exception:
        pass
    return False


def _ite_conds(e, acc, seen):
    k = e.get_id()
    if k in seen:
        return
    seen.add(k)
    if z3.is_app(e) and e.decl().kind() == z3.Z3_OP_ITE:
        c = e.children()[0]
        if not any(c.eq(x) for x in acc):
            acc.append(c)
    for ch in e.children():
        _ite_conds(ch, acc, seen)


def _nf_eqs(g):
    """goal -> list of (lhs, rhs) if it is a conjunction of real equalities"""
    eqs = []

    def collect(x):
        if z3.is_and(x):
            return all(collect(c) for c in x.children())
        if z3.is_eq(x) and not z3.is_bool(x.children()[0]):
            eqs.append(x.children())
            return True
        return z3.is_true(x)
    if not collect(g):
        return None
    return eqs


def _nf_flat(ob_hyps, goal, tab):
    eqs = _nf_eqs(goal)
    if eqs is None:
        return False, 'not equational'
    for a, b in eqs:
        d = z3_to_sympy(a, tab) - z3_to_sympy(b, tab)
        if not nf_is_zero(d):
            return False, 'nonzero normal form'
    return True, ''


def _uf_apps(e, acc, seen):
    k = e.get_id()
    if k in seen:
        return
    seen.add(k)
    if z3.is_app(e) and e.decl().kind() == z3.Z3_OP_UNINTERPRETED and \
            e.decl().name() in UF_NAMES:
        acc.append(e)
    for ch in e.children():
        _uf_apps(ch, acc, seen)


class LinAbs(object):
    """Linear abstraction: every non-linear sub-term (product of two
    non-numerals, division by a non-numeral, power, uninterpreted
    application) becomes an opaque real variable keyed by its simplified
    text.  unsat(abstraction) => unsat(original)."""

    def __init__(self, pos=()):
        self.tab = {}
        self.cache = {}
        self.side = []
        self.terms = {}
        self.pos = set(pos)

    def var(self, e):
        k = z3.simplify(e).sexpr()
        if k not in self.tab:
            v = z3.Real('la#%d' % len(self.tab))
            self.tab[k] = v
            self.terms[k] = e
            sg = self.sign(e)
            if sg == '+':
                self.side.append(v > 0)
            elif sg == '0+':
                self.side.append(v >= 0)
            elif sg == '-':
                self.side.append(v < 0)
        return self.tab[k]

    def sign(self, e):
        """Syntactic sign analysis ('+', '0+', '-', '?') from the positive
        variables declared in self.pos: products/quotients/sums of positive
        terms are positive, sqrt(x>0) > 0, exp > 0."""
        if z3.is_rational_value(e) or z3.is_int_value(e):
            v = S.simp(e)
            return '+' if v > 0 else ('-' if v < 0 else '0+')
        if z3.is_const(e):
            return '+' if str(e) in self.pos else '?'
        kind = e.decl().kind()
        ch = e.children()
        if kind == z3.Z3_OP_MUL or kind == z3.Z3_OP_DIV:
            neg = False
            weak = False
            for c in ch:
                sc = self.sign(c)
                if sc == '?':
                    return '?'
                if sc == '-':
                    neg = not neg
                if sc == '0+':
                    if kind == z3.Z3_OP_DIV and c is ch[1]:
                        return '?'
                    weak = True
            if weak:
                return '?' if neg else '0+'
            return '-' if neg else '+'
        if kind == z3.Z3_OP_ADD:
            sg = [self.sign(c) for c in ch]
            if all(x in ('+', '0+') for x in sg):
                return '+' if '+' in sg else '0+'
            if all(x == '-' for x in sg):
                return '-'
            return '?'
        if kind == z3.Z3_OP_UMINUS:
            sc = self.sign(ch[0])
            return {'+': '-', '-': '+'}.get(sc, '?')
        if kind == z3.Z3_OP_UNINTERPRETED:
            n = e.decl().name()
            if n == 'sqrt':
                return '+' if self.sign(ch[0]) == '+' else '0+'
            if n == 'exp':
                return '+'
            if n == 'pow':
                return '+' if self.sign(ch[0]) == '+' else '?'
        if kind == z3.Z3_OP_ITE:
            a, b = self.sign(ch[1]), self.sign(ch[2])
            if a == b:
                return a
            if a in ('+', '0+') and b in ('+', '0+'):
                return '0+'
        return '?'


    def ab(self, e):
        k = e.get_id()
        if k in self.cache:
            return self.cache[k][1]
        r = self._ab(e)
        self.cache[k] = (e, r)      # keep e alive: ids are reused after GC
        return r

    def _ab(self, e):
        if z3.is_const(e) or z3.is_var(e):
            return e
        if z3.is_quantifier(e):
            return z3.BoolVal(True) if z3.is_bool(e) else e
        kind = e.decl().kind()
        ch = e.children()
        num = lambda x: z3.is_rational_value(x) or z3.is_int_value(x)
        if kind == z3.Z3_OP_MUL:
            nn = [c for c in ch if not num(c)]
            if len(nn) >= 2:
                return self.var(e)
        elif kind == z3.Z3_OP_DIV:
            if not num(ch[1]):
                return self.var(e)
        elif kind in (z3.Z3_OP_POWER, z3.Z3_OP_IDIV, z3.Z3_OP_MOD):
            if not all(num(c) for c in ch[1:]):
                return self.var(e)
            if kind == z3.Z3_OP_POWER:
                return self.var(e)
        elif kind == z3.Z3_OP_UNINTERPRETED:
            return self.var(e)
        kids = [self.ab(c) for c in ch]
        if all(a.eq(b) for a, b in zip(kids, ch)):
            return e
        return e.decl()(*kids)


def nf_prove(ob, max_cases=400, budget_s=60.0):
    """Equalities (and conjunctions of them) whose two sides are equal as
    rational functions.  if-then-else terms (min/max/abs/merged branches) are
    split into cases.  A case is skipped when its conditions contradict the
    hypotheses already in the *linear abstraction* (z3 with non-linear
    arithmetic off: products are opaque atoms -- sound for pruning, fast);
    every other case must normalise to zero, or be proved by z3 on its own
    smaller query."""
    t0 = time.time()
    g = ob.goal
    if _nf_eqs(g) is None:
        return Result('unknown', 'nf', time.time() - t0, note='not equational')
    try:
        tab = {'__positive__': positive_vars(ob.hyps)}
        conds = []
        _ite_conds(g, conds, set())
        if not conds:
            ok, why = _nf_flat(ob.hyps, g, tab)
            return Result('proved' if ok else 'unknown', 'nf',
                          time.time() - t0, note=why)
        la = LinAbs(tab['__positive__'])
        sol = z3.SolverFor('QF_LRA')
        sol.set('timeout', 2000)
        for h in ob.hyps:
            sol.add(la.ab(z3.simplify(h)))
        ncase = [0, 0, 0]

        def rec(goal, chosen):
            if ncase[0] > max_cases or time.time() - t0 > budget_s:
                return False
            cs = []
            _ite_conds(goal, cs, set())
            if not cs:
                ncase[0] += 1
                if z3.is_true(goal):
                    return True
                if _nf_eqs(goal) is not None:
                    ok, why = _nf_flat(None, goal, tab)
                    if ok:
                        return True
                    # opaque non-linear terms the (linear abstraction of
                    # the) hypotheses force to zero: substitute and retry
                    g3 = goal
                    for key, var in list(la.tab.items()):
                        sol.push()
                        sol.add(var != 0)
                        forced = sol.check() == z3.unsat
                        sol.pop()
                        if forced:
                            g3 = z3.substitute(g3, (la.terms[key],
                                                    z3.RealVal(0)))
                    if not g3.eq(goal):
                        g3 = z3.simplify(g3)
                        if z3.is_true(g3):
                            return True
                        if _nf_eqs(g3) is not None and \
                                _nf_flat(None, g3, tab)[0]:
                            return True
                ncase[1] += 1
                sub = type(ob)(ob.name + '.case', list(ob.hyps) + chosen,
                               goal, ob.where, ob.kind, ob.extra)
                return z3_prove(sub, 5000).verdict == 'proved'
            c = cs[0]
            for val in (True, False):
                lit = c if val else z3.Not(c)
                sol.push()
                sol.add(la.ab(z3.simplify(lit)))
                for sd in la.side:
                    sol.add(sd)
                feas = sol.check()
                if feas == z3.unsat:
                    sol.pop()
                    ncase[2] += 1
                    continue
                g2 = z3.simplify(z3.substitute(goal, (c, z3.BoolVal(val))))
                ok = rec(g2, chosen + [lit])
                sol.pop()
                if not ok:
                    return False
            return True
        ok = rec(z3.simplify(g), [])
        note = '%d cases (%d via z3, %d infeasible branches)' % tuple(ncase)
        return Result('proved' if ok else 'unknown', 'nf-cases',
                      time.time() - t0, note=note)
    except S.VCError as ex:
        return Result('unknown', 'nf', time.time() - t0, note=str(ex))


def discharge(ob, tier='quick', seed=0, use_nf=True):
    """Try the back ends in order.  -> Result"""
    tmo = 20000 if tier == 'quick' else 120000
    tmo = int(ob.extra.get('timeout_ms', tmo)) if ob.extra else tmo
    notes = []
    if z3.is_true(ob.goal):
        return Result('proved', 'trivial', 0.0)
    order = ob.extra.get('backends') if ob.extra else None
    order = order or (['nf', 'z3', 'cvc5'] if use_nf else ['z3', 'cvc5'])
    total = 0.0
    for b in order:
        if b == 'nf':
            r = nf_prove(ob)
        elif b == 'z3':
            r = z3_prove(ob, tmo, seed)
        elif b == 'cvc5':
            r = cvc5_prove(ob, tmo)
        else:
            continue
        total += r.seconds
        if r.verdict != 'unknown':
            r.seconds = total
            r.note = '; '.join(notes + [r.note]) if r.note else \
                '; '.join(notes)
            return r
        notes.append('%s: %s' % (b, r.note))
    return Result('unknown', '+'.join(order), total, note='; '.join(notes))
