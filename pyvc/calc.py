"""Small calculus / formula utilities on z3 terms used by several contracts:
symbolic derivative, closure of a path condition, substitution, evaluation."""
from fractions import Fraction

import z3

from . import sym as S


def ddx(e, x):
    """d e / d x for a z3 real term built from + - * / ^const, ite,
    exp, sqrt.  (ite: derivative of each branch -- valid off the switching
    surface, which is how callers use it.)"""
    cache = {}

    def d(t):
        k = t.get_id()
        if k in cache:
            return cache[k][1]
        r = _d(t)
        cache[k] = (t, r)       # keep t alive: ids are reused after GC
        return r

    def _d(t):
        if t.eq(x):
            return z3.RealVal(1)
        if z3.is_const(t):
            return z3.RealVal(0)
        kind = t.decl().kind()
        ch = t.children()
        if kind == z3.Z3_OP_ADD:
            return z3.Sum([d(c) for c in ch])
        if kind == z3.Z3_OP_SUB:
            r = d(ch[0])
            for c in ch[1:]:
                r = r - d(c)
            return r
        if kind == z3.Z3_OP_UMINUS:
            return -d(ch[0])
        if kind == z3.Z3_OP_MUL:
            terms = []
            for i in range(len(ch)):
                fs = [d(ch[i])] + [ch[j] for j in range(len(ch)) if j != i]
                terms.append(z3.Product(fs) if len(fs) > 1 else fs[0])
            return z3.Sum(terms)
        if kind == z3.Z3_OP_DIV:
            a, b = ch
            return (d(a) * b - a * d(b)) / (b * b)
        if kind == z3.Z3_OP_POWER:
            a, n = ch
            if z3.is_rational_value(n) or z3.is_int_value(n):
                return n * (a ** (n - 1)) * d(a)
            raise S.VCError('ddx: symbolic exponent')
        if kind == z3.Z3_OP_ITE:
            return z3.If(ch[0], d(ch[1]), d(ch[2]))
        if kind == z3.Z3_OP_TO_REAL:
            return z3.RealVal(0)
        if kind == z3.Z3_OP_UNINTERPRETED:
            n = t.decl().name()
            if n == 'exp':
                return t * d(ch[0])
            if n == 'sqrt':
                return d(ch[0]) / (2 * t)
            if n == 'sin':
                return S.UF['cos'](ch[0]) * d(ch[0])
            if n == 'cos':
                return -S.UF['sin'](ch[0]) * d(ch[0])
            if n == 'pow':
                # a ** n with an exponent that does not depend on x
                a, ex_ = ch

                def has_x(u):
                    if u.eq(x):
                        return True
                    return any(has_x(c_) for c_ in u.children())
                if not has_x(ex_):
                    return ex_ * t.decl()(a, ex_ - 1) * d(a)
                raise S.VCError('ddx: exponent depends on the variable')
        raise S.VCError('ddx: %s' % t.decl().name())
    return d(S.to_real(e))


def closure(c):
    """Topological closure of an atom (strict -> non-strict); conservative
    (returns the atom itself) for anything not recognised."""
    if z3.is_not(c):
        a = c.children()[0]
        if z3.is_lt(a) or z3.is_gt(a) or z3.is_le(a) or z3.is_ge(a):
            l, r = a.children()
            if z3.is_lt(a):       # not(l<r) = l>=r  closed
                return l >= r
            if z3.is_gt(a):
                return l <= r
            if z3.is_le(a):       # not(l<=r) = l>r -> l>=r
                return l >= r
            if z3.is_ge(a):
                return l <= r
        if z3.is_eq(a):           # not(l==r): closure is everything
            return z3.BoolVal(True)
        return c
    if z3.is_lt(c):
        l, r = c.children()
        return l <= r
    if z3.is_gt(c):
        l, r = c.children()
        return l >= r
    if z3.is_distinct(c):
        return z3.BoolVal(True)
    if z3.is_and(c):
        return z3.And(*[closure(x) for x in c.children()])
    if z3.is_or(c):
        return z3.Or(*[closure(x) for x in c.children()])
    return c


def subst(e, pairs):
    return z3.substitute(S.to_z3(e), *[(a, S.to_z3(b)) for a, b in pairs])


def sat(fs, timeout_ms=3000):
    s = z3.Solver()
    s.set('timeout', timeout_ms)
    for f in fs:
        s.add(f)
    return s.check()


def model_float(model, name, default=None):
    v = model.get(name, default)
    if v is None:
        return None
    if isinstance(v, bool):
        return v
    try:
        return float(Fraction(v))
    except Exception:
        return default
