"""Machine integers for contracts on mechanically extracted Cython.

The ordinary executor treats C integers as mathematical integers (a stated
assumption of every check).  Where the property hinges on the width of a C
type (bit-packed keys), a contract passes `CInt` values instead: fixed-width
two's-complement values over z3 bit-vectors that follow ISO C for the
operations the extracted text can contain:

  * integer promotion (anything narrower than int -> int),
  * the usual arithmetic conversions for + - * / % and comparisons,
  * shifts: both operands promoted separately, the result has the type of
    the promoted LEFT operand; a shift count outside [0, width) and a signed
    left shift whose result is not representable are undefined behaviour ->
    side obligations `ub.*` on the executor,
  * signed overflow of + - * is undefined behaviour -> `ub.*` obligation;
    unsigned arithmetic wraps,
  * / and % truncate toward zero (C, and Cython with cdivision(True)),
  * an integer literal has type int (long if it does not fit).

Widths (LP64, the platform of this image): char 8, short 16, int 32,
long / long long / size_t / Py_ssize_t 64.  Type names come from the .pxd /
.pyx declarations recorded by cy2py (ModuleInfo.ctypes / cattrs / typedefs);
casts come from the typed extraction (c_cast('<type>', e)).
"""
import z3

from . import sym as S
from .sym import VCError

BASE = {
    'char': (8, True), 'signed char': (8, True), 'unsigned char': (8, False),
    'short': (16, True), 'unsigned short': (16, False),
    'int': (32, True), 'unsigned int': (32, False), 'unsigned': (32, False),
    'bint': (32, True),
    'long': (64, True), 'unsigned long': (64, False),
    'long long': (64, True), 'unsigned long long': (64, False),
    'longlong': (64, True),
    'size_t': (64, False), 'Py_ssize_t': (64, True),
    'uint32_t': (32, False), 'int32_t': (32, True),
    'uint64_t': (64, False), 'int64_t': (64, True),
}


def resolve(tname, typedefs):
    """C type name -> (bits, signed); follows ctypedefs"""
    seen = set()
    t = tname.strip()
    while t not in BASE:
        if t in seen or t not in typedefs:
            raise VCError('unknown C integer type %r' % tname)
        seen.add(t)
        t = typedefs[t].strip()
    return BASE[t]


class CInt(object):
    """a C integer value: z3 bit-vector + signedness"""

    def __init__(self, bv, bits, signed):
        self.bv, self.bits, self.signed = bv, bits, signed

    # ---- construction / conversion
    @staticmethod
    def sym(name, bits, signed):
        return CInt(z3.BitVec(name, bits), bits, signed)

    @staticmethod
    def lit(v):
        if -2 ** 31 <= v < 2 ** 31:
            return CInt(z3.BitVecVal(v, 32), 32, True)
        if -2 ** 63 <= v < 2 ** 63:
            return CInt(z3.BitVecVal(v, 64), 64, True)
        raise VCError('integer literal %d does not fit a C long' % v)

    @staticmethod
    def of(v):
        if isinstance(v, CInt):
            return v
        if isinstance(v, bool):
            return CInt.lit(int(v))
        if isinstance(v, int):
            return CInt.lit(v)
        raise VCError('not a C integer: %r' % (v,))

    def conv(self, bits, signed):
        if bits == self.bits:
            return CInt(self.bv, bits, signed)
        if bits < self.bits:
            return CInt(z3.Extract(bits - 1, 0, self.bv), bits, signed)
        ext = z3.SignExt if self.signed else z3.ZeroExt
        return CInt(ext(bits - self.bits, self.bv), bits, signed)

    def promote(self):
        if self.bits < 32:
            return self.conv(32, True)
        return self

    @staticmethod
    def usual(a, b):
        a, b = a.promote(), b.promote()
        if (a.bits, a.signed) == (b.bits, b.signed):
            return a, b
        if a.signed == b.signed:
            w = max(a.bits, b.bits)
            return a.conv(w, a.signed), b.conv(w, a.signed)
        u, s = (a, b) if not a.signed else (b, a)
        if u.bits >= s.bits:
            w, sg = u.bits, False
        else:
            w, sg = s.bits, True        # signed type holds every value
        return a.conv(w, sg), b.conv(w, sg)

    def as_int(self):
        """mathematical value (z3 Int)"""
        return z3.BV2Int(self.bv, is_signed=self.signed)

    # ---- hooks of the executor
    def vc_binop(self, opname, other, reflected, ex, st, node):
        o = CInt.of(other)
        a, b = (o, self) if reflected else (self, o)
        where = ex.where(node) if node is not None else ''
        ln = getattr(node, 'lineno', 0)
        if opname in ('LShift', 'RShift'):
            a, b = a.promote(), b.promote()
            cnt = b.conv(a.bits, b.signed) if b.bits <= a.bits else None
            if cnt is None:
                # count wider than the left operand: compare in its own width
                inr = z3.And(z3.ULT(b.bv, z3.BitVecVal(a.bits, b.bits)))
                if b.signed:
                    inr = z3.And(b.bv >= 0, inr)
                cbv = z3.Extract(a.bits - 1, 0, b.bv)
            else:
                inr = z3.ULT(cnt.bv, z3.BitVecVal(a.bits, a.bits))
                if b.signed:
                    inr = z3.And(cnt.bv >= 0, inr)
                cbv = cnt.bv
            ex.oblige('ub.shift_count@%s' % ln, st, inr, where, 'ub')
            if opname == 'LShift':
                r = a.bv << cbv
                if a.signed:
                    # representable: non-negative and no bit shifted out
                    ok = z3.And(a.bv >= 0, r >= 0, (r >> cbv) == a.bv)
                    ex.oblige('ub.signed_shift_overflow@%s' % ln, st, ok,
                              where, 'ub')
                return CInt(r, a.bits, a.signed)
            r = (a.bv >> cbv) if a.signed else z3.LShR(a.bv, cbv)
            return CInt(r, a.bits, a.signed)
        a, b = CInt.usual(a, b)
        w, sg = a.bits, a.signed
        if opname in ('Add', 'Sub', 'Mult'):
            r = {'Add': a.bv + b.bv, 'Sub': a.bv - b.bv,
                 'Mult': a.bv * b.bv}[opname]
            if sg:
                if opname == 'Add':
                    ok = z3.And(z3.BVAddNoOverflow(a.bv, b.bv, True),
                                z3.BVAddNoUnderflow(a.bv, b.bv))
                elif opname == 'Sub':
                    ok = z3.And(z3.BVSubNoOverflow(a.bv, b.bv),
                                z3.BVSubNoUnderflow(a.bv, b.bv, True))
                else:
                    ok = z3.And(z3.BVMulNoOverflow(a.bv, b.bv, True),
                                z3.BVMulNoUnderflow(a.bv, b.bv))
                ex.oblige('ub.signed_overflow@%s' % ln, st, ok, where, 'ub')
            return CInt(r, w, sg)
        if opname in ('Mod', 'FloorDiv', 'Div'):
            ex.oblige('ub.zero_divisor@%s' % ln, st, b.bv != 0, where, 'ub')
            if opname == 'Mod':
                r = z3.SRem(a.bv, b.bv) if sg else z3.URem(a.bv, b.bv)
            else:
                r = (a.bv / b.bv) if sg else z3.UDiv(a.bv, b.bv)
            return CInt(r, w, sg)
        if opname in ('BitAnd', 'BitOr', 'BitXor'):
            r = {'BitAnd': a.bv & b.bv, 'BitOr': a.bv | b.bv,
                 'BitXor': a.bv ^ b.bv}[opname]
            return CInt(r, w, sg)
        raise VCError('C integer operator %s' % opname)

    def vc_compare(self, op, other, reflected):
        o = CInt.of(other)
        a, b = (o, self) if reflected else (self, o)
        a, b = CInt.usual(a, b)
        if op == '==':
            return a.bv == b.bv
        if op == '!=':
            return a.bv != b.bv
        if a.signed:
            return {'<': a.bv < b.bv, '<=': a.bv <= b.bv, '>': a.bv > b.bv,
                    '>=': a.bv >= b.bv}[op]
        return {'<': z3.ULT(a.bv, b.bv), '<=': z3.ULE(a.bv, b.bv),
                '>': z3.UGT(a.bv, b.bv), '>=': z3.UGE(a.bv, b.bv)}[op]

    def vc_clone(self, memo, _c=None):
        return self

    def __repr__(self):
        return 'CInt<%s%d>(%s)' % ('i' if self.signed else 'u', self.bits,
                                   self.bv)


def cast_external(typedefs):
    """model of c_cast('<type>', e) of the typed extraction"""
    def c_cast(ex, st, args, kwargs, node):
        v = args[1]
        try:
            bits, signed = resolve(args[0], typedefs)
        except VCError:
            if isinstance(v, (CInt, int, bool)):
                raise
            return v                    # cast to an extension / pointer type
        if isinstance(v, (CInt, int, bool)):
            return CInt.of(v).conv(bits, signed)
        raise VCError('c_cast of a non-integer value')
    return c_cast


def run(repo, m, cls, fname, args, self_obj, typedefs, attrs_types=None,
        pre=None):
    """Execute the typed extraction of cls.fname on CInt arguments converted
    to the declared parameter types; the result is converted to the declared
    return type.  -> (executor, [(path condition, CInt result)])"""
    from .symexec import Executor, State
    mt = m.typed
    fn = mt.methods(cls)[fname]
    rec = m.ctypes.get('%s.%s' % (cls, fname))
    if rec is None:
        raise VCError('no recorded C signature for %s.%s' % (cls, fname))
    call = dict(self=self_obj)
    for p_, v in args.items():
        t = rec['args'].get(p_)
        if t is None:
            raise VCError('parameter %s of %s has no recorded type' % (
                p_, fname))
        bits, signed = resolve(t, typedefs)
        call[p_] = v if not isinstance(v, CInt) else v.conv(bits, signed)
    from .symexec import Native
    ex = Executor(repo, mt, qualname='%s.%s' % (cls, fname), merge=False)
    ex.spec_env['c_cast'] = Native(cast_external(typedefs))
    outs = ex.exec_function(fn, call, State(pc=list(pre or [])))
    rb, rs = resolve(rec['ret'], typedefs)
    res = []
    for o in outs:
        if o.kind != 'return':
            raise VCError('%s.%s does not return on every path' % (cls,
                                                                    fname))
        res.append((o.pc, CInt.of(o.value).conv(rb, rs)))
    return ex, res
