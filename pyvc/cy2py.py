"""Mechanical extraction: Cython source -> Python-subset text.

Runs under /venv/bin/python (needs Cython's own parser):
    /venv/bin/python cy2py.py file.pyx  ->  JSON {text, lines, dropped}

The .pyx/.pxd is parsed with Cython.Compiler.TreeFragment.parse_from_strings
(parser only, no type analysis) and printed back with Cython's CodeWriter,
subclassed so that what Python cannot express is dropped -- and recorded:

  dropped        cdef/cpdef variable declarations without initialiser, C types
                 of arguments and return values, nogil/noexcept/inline, cimport,
                 ctypedef, cdef extern blocks, decorators, `with nogil:` and
                 `with nogil, parallel():` wrappers (body kept)
  rewritten      `cdef T x = e`      -> `x = e`
                 `<T>e`              -> `int(e)` for C integer T, `float(e)`
                                        for double/float, `e` otherwise
                 `prange(...)`       -> `range(...)`  (first positional args)
                 `&a[0]`             -> `a`  (array decay)
                 `&x`                -> `addr_of(x)`: the executor passes a
                                        one-cell box and writes it back after
                                        the call (C out-parameter)
                 `x[0] = e` on a pointer parameter stays an index store
                 `cdef class C(B)`   -> `class C(B)`
                 `NULL`              -> `None`
                 for-from loops      -> `for i in range(a, b)`
Nothing else is changed; statement order, expressions and control flow are
the parser's.
"""
import json
import sys

from Cython.Compiler.TreeFragment import parse_from_strings
from Cython.CodeWriter import CodeWriter
from Cython.Compiler import Nodes, ExprNodes

INT_TYPES = {'int', 'long', 'short', 'char', 'size_t', 'Py_ssize_t',
             'unsigned', 'u_int', 'uint32_t', 'uint64_t', 'int32_t',
             'int64_t', 'ZOLTAN_ID_TYPE', 'longlong', 'bint'}
FLOAT_TYPES = {'double', 'float', 'REAL'}


class Py(CodeWriter):
    def __init__(self):
        super().__init__()
        self.dropped = {}
        self.lines = {}        # qualname -> pyx line
        self.scope = []
        self.typed = False     # second pass: casts keep their C type
        self.ctypes = {}       # qualname -> {'args': {name: ctype}, 'ret': ..}
        self.cattrs = {}       # class -> {attribute: ctype}
        self.typedefs = {}     # name -> ctype

    def drop(self, what):
        self.dropped[what] = self.dropped.get(what, 0) + 1

    # ---- declarations that disappear
    def visit_CImportStatNode(self, node):
        self.drop('cimport')

    def visit_FromCImportStatNode(self, node):
        self.drop('cimport')

    def visit_CDefExternNode(self, node):
        self.drop('cdef extern block')

    def visit_CTypeDefNode(self, node):
        self.drop('ctypedef')
        try:
            nm = self._funcname(node.declarator)
            self.typedefs[nm] = self._ctype(node.base_type, node.declarator)
        except Exception:
            pass

    def _ctype(self, bt, decl=None):
        """C type of a declaration as text: 'unsigned int', 'u_int*', ..."""
        name = getattr(bt, 'name', None)
        if name is None:
            return '?'
        signed = getattr(bt, 'signed', 1)
        longness = getattr(bt, 'longness', 0)
        parts = []
        if signed == 0:
            parts.append('unsigned')
        if longness == -1:
            parts.append('short')
        parts += ['long'] * max(0, longness)
        if not (name == 'int' and (longness or signed == 0)) or not parts:
            parts.append(name)
        elif name == 'int' and signed == 0 and not longness:
            parts.append('int')
        t = ' '.join(parts)
        d = decl
        while d is not None and not isinstance(d, Nodes.CNameDeclaratorNode):
            if isinstance(d, Nodes.CPtrDeclaratorNode):
                t += '*'
            elif isinstance(d, Nodes.CArrayDeclaratorNode):
                t += '[]'
            d = getattr(d, 'base', None)
        return t

    def visit_CStructOrUnionDefNode(self, node):
        self.drop('struct/union definition')

    def visit_CppClassNode(self, node):
        self.drop('cppclass definition')

    def visit_CEnumDefNode(self, node):
        # anonymous / named enums: keep the constants as assignments
        self.drop('enum definition -> constant assignments')
        nxt = None
        for it in node.items:
            self.startline(it.name + ' = ')
            if it.value is not None:
                self.visit(it.value)
            else:
                self.put('0' if nxt is None else '(%s + 1)' % nxt)
            self.endline()
            nxt = it.name

    def visit_CVarDefNode(self, node):
        # keep initialisers: cdef int x = 3  ->  x = 3
        any_init = False
        bt = node.base_type
        try:
            for d_ in node.declarators:
                nm_ = self._funcname(d_)
                ty_ = self._ctype(bt, d_)
                if self.scope and self.scope[-1][:1].isupper() and \
                        len(self.scope) == 1:
                    self.cattrs.setdefault(self.scope[-1], {})[nm_] = ty_
                elif self.scope:
                    self.ctypes.setdefault('.'.join(self.scope), dict(
                        args={}, ret='?')).setdefault('locals', {})[nm_] = ty_
        except Exception:
            pass
        if isinstance(bt, Nodes.TemplatedTypeNode) and self.scope and \
                not self.scope[-1][:1].isupper():
            # `cdef double [n]e`, `cdef double [3][3]K`: local C arrays
            dims = []
            b = bt
            while isinstance(b, Nodes.TemplatedTypeNode):
                dims = list(b.positional_args) + dims
                b = b.base_type_node
            base_name = getattr(b, 'name', None)
            if dims and base_name in ('double', 'float', 'int', 'long',
                                      'unsigned', 'short', 'char') and \
                    not any(isinstance(x, ExprNodes.SliceNode)
                            for x in dims):
                for d in node.declarators:
                    if isinstance(d, Nodes.CNameDeclaratorNode) and \
                            d.default is None:
                        self.startline(d.name + ' = c_array(')
                        self.comma_separated_list(dims)
                        self.endline(')')
                        self.drop('local C array -> c_array(dims)')
                return
        for d in node.declarators:
            if isinstance(d, Nodes.CArrayDeclaratorNode):
                # cdef double[n] e  /  double e[3][3]: a local C array ->
                # e = c_array(dims...)  (uninitialised cells)
                dims = []
                b = d
                while isinstance(b, Nodes.CArrayDeclaratorNode):
                    dims.append(b.dimension)
                    b = b.base
                if isinstance(b, Nodes.CNameDeclaratorNode) and b.name and \
                        all(x is not None for x in dims) and self.scope and \
                        not self.scope[-1][:1].isupper():
                    self.startline(b.name + ' = c_array(')
                    self.comma_separated_list(list(reversed(dims)))
                    self.endline(')')
                    self.drop('local C array -> c_array(dims)')
                    continue
            base = d
            while hasattr(base, 'base') and not isinstance(
                    base, Nodes.CNameDeclaratorNode):
                base = base.base
            default = getattr(base, 'default', None)
            if default is not None:
                any_init = True
                self.startline(base.name + ' = ')
                self.visit(default)
                self.endline()
        self.drop('cdef variable declaration')

    def visit_CClassDefNode(self, node):
        self.startline('class ' + node.class_name)
        bases = getattr(node, 'bases', None)
        if bases is not None and getattr(bases, 'args', None):
            self.put('(')
            self.comma_separated_list(bases.args)
            self.put(')')
        elif getattr(node, 'base_class_name', None):
            self.put('(' + node.base_class_name + ')')
        self.endline(':')
        self.scope.append(node.class_name)
        self.indent()
        n0 = len(self.result.lines)
        self.visit(node.body)
        if len(self.result.lines) == n0:
            self.line('pass')
        self.dedent()
        self.scope.pop()

    def visit_PyClassDefNode(self, node):
        self.startline('class ' + node.name)
        if node.bases is not None and getattr(node.bases, 'args', None):
            self.put('(')
            self.comma_separated_list(node.bases.args)
            self.put(')')
        self.endline(':')
        self.scope.append(node.name)
        self.indent()
        n0 = len(self.result.lines)
        self.visit(node.body)
        if len(self.result.lines) == n0:
            self.line('pass')
        self.dedent()
        self.scope.pop()

    def _funcname(self, decl):
        d = decl
        while not isinstance(d, Nodes.CNameDeclaratorNode):
            d = d.base
        return d.name

    def _argname(self, arg):
        d = arg.declarator
        n = None
        while d is not None:
            if isinstance(d, Nodes.CNameDeclaratorNode):
                n = d.name
                break
            d = getattr(d, 'base', None)
        if not n:
            # `def f(self, x)`: untyped argument: the "type" is the name
            bt = arg.base_type
            n = getattr(bt, 'name', None)
        return n

    def _emit_def(self, name, args, body, pos, star=None, starstar=None):
        q = '.'.join(self.scope + [name])
        self.lines[q] = pos[1]
        self.startline('def %s(' % name)
        first = True
        for a in args:
            if not first:
                self.put(', ')
            first = False
            self.put(self._argname(a))
            if a.default is not None:
                self.put('=')
                self.visit(a.default)
        if star is not None:
            self.put(('' if first else ', ') + '*' + star.name)
            first = False
        if starstar is not None:
            self.put(('' if first else ', ') + '**' + starstar.name)
        self.endline('):')
        self.scope.append(name)
        self.indent()
        n0 = len(self.result.lines)
        self.visit(body)
        if len(self.result.lines) == n0:
            self.line('pass')
        self.dedent()
        self.scope.pop()

    def visit_CFuncDefNode(self, node):
        fd = node.declarator
        while not isinstance(fd, Nodes.CFuncDeclaratorNode):
            fd = fd.base
        self.drop('C signature (types, nogil, noexcept, inline)')
        try:
            q = '.'.join(self.scope + [self._funcname(fd.base)])
            rec = dict(args={}, ret=self._ctype(node.base_type, None))
            for a in fd.args:
                d = a.declarator
                has_name = False
                while d is not None:
                    if isinstance(d, Nodes.CNameDeclaratorNode):
                        has_name = bool(d.name)
                        break
                    d = getattr(d, 'base', None)
                if has_name:
                    rec['args'][self._argname(a)] = self._ctype(
                        a.base_type, a.declarator)
            self.ctypes[q] = rec
        except Exception:
            pass
        self._emit_def(self._funcname(fd.base), fd.args, node.body, node.pos)

    def visit_DefNode(self, node):
        if node.decorators:
            self.drop('decorator')
        self._emit_def(node.name, node.args, node.body, node.pos,
                       node.star_arg, node.starstar_arg)

    visit_FuncDefNode = visit_DefNode

    def visit_CArgDeclNode(self, node):
        self.put(self._argname(node))

    # ---- statements
    def visit_GILStatNode(self, node):
        self.drop('with nogil/gil (body kept)')
        self.visit(node.body)

    def visit_ParallelWithBlockNode(self, node):
        self.drop('with parallel() (body kept)')
        self.visit(node.body)

    def visit_ParallelRangeNode(self, node):
        self.drop('prange -> range')
        self.startline('for ')
        self.visit(node.target)
        self.put(' in range(')
        self.comma_separated_list(node.args)
        self.endline('):')
        self._visit_indented(node.body)
        if node.else_clause is not None:
            self.line('else:')
            self._visit_indented(node.else_clause)

    def visit_ForFromStatNode(self, node):
        self.startline('for ')
        self.visit(node.target)
        self.put(' in range(')
        self.visit(node.bound1)
        if node.relation1 == '<':
            self.put(' + 1')
        self.put(', ')
        self.visit(node.bound2)
        if node.relation2 == '<=':
            self.put(' + 1')
        self.endline('):')
        self._visit_indented(node.body)

    def visit_RaiseStatNode(self, node):
        self.startline('raise')
        if node.exc_type is not None:
            self.put(' ')
            self.visit(node.exc_type)
            if node.exc_value is not None:
                self.put('(')
                self.visit(node.exc_value)
                self.put(')')
        self.endline()

    def visit_AssertStatNode(self, node):
        self.startline('assert ')
        cond = getattr(node, 'condition', None) or getattr(node, 'cond')
        self.visit(cond)
        self.endline()

    def visit_DelStatNode(self, node):
        self.startline('del ')
        self.comma_separated_list(node.args)
        self.endline()

    def visit_GlobalNode(self, node):
        self.line('global ' + ', '.join(node.names))

    def visit_FromImportStatNode(self, node):
        self.startline('from ')
        self.put(str(node.module.module_name.value))
        self.put(' import ')
        self.put(', '.join(n if n == t.name else '%s as %s' % (n, t.name)
                           for n, t in node.items))
        self.endline()

    def visit_ExecStatNode(self, node):
        self.line('pass')

    def visit_ParallelAssignmentNode(self, node):
        for s in node.stats:
            self.visit(s)

    def visit_PropertyNode(self, node):
        self.drop('property block')
        self.scope.append(node.name)
        self.visit(node.body)
        self.scope.pop()

    # ---- expressions
    def visit_TypecastNode(self, node):
        bt = node.base_type
        name = getattr(bt, 'name', None)
        decl = node.declarator
        is_ptr = not isinstance(decl, Nodes.CNameDeclaratorNode)
        if not is_ptr and (name in INT_TYPES or getattr(bt, 'signed', 1) != 1
                           or getattr(bt, 'longness', 0)) and \
                name not in FLOAT_TYPES:
            self.drop('<int-type> cast -> int()')
            if self.typed:
                self.put('c_cast(%r, ' % self._ctype(bt, None))
                self.visit(node.operand)
                self.put(')')
                return
            self.put('int(')
            self.visit(node.operand)
            self.put(')')
        elif not is_ptr and name in FLOAT_TYPES:
            self.drop('<double> cast -> float()')
            self.put('float(')
            self.visit(node.operand)
            self.put(')')
        elif self.typed and not is_ptr and name:
            # a typedef'd integer type or an extension type: the contract's
            # model of c_cast decides (identity for non-integer types)
            self.drop('<type> cast removed')
            self.put('c_cast(%r, ' % self._ctype(bt, None))
            self.visit(node.operand)
            self.put(')')
        else:
            self.drop('<type> cast removed')
            self.put('(')
            self.visit(node.operand)
            self.put(')')

    def visit_AmpersandNode(self, node):
        op = node.operand
        if isinstance(op, ExprNodes.IndexNode) and isinstance(
                op.index, ExprNodes.IntNode) and str(op.index.value) == '0':
            self.drop('&a[0] -> a (array decay)')
            self.visit(op.base)
            return
        self.drop('&x -> addr_of(x)')
        self.put('addr_of(')
        self.visit(op)
        self.put(')')

    def visit_SingleAssignmentNode(self, node):
        if isinstance(node.rhs, ExprNodes.ImportNode):
            mod = str(node.rhs.module_name.value)
            self.startline('import %s as ' % mod)
            self.visit(node.lhs)
            self.endline()
            return
        super().visit_SingleAssignmentNode(node)

    # Cython's CodeWriter drops parentheses of right-nested operands of equal
    # precedence (a - (b - c)) and comparison cascades: print every operator
    # application fully parenthesised instead.
    def visit_BinopNode(self, node):
        self.put('(')
        self.visit(node.operand1)
        self.put(' %s ' % node.operator.replace('_', ' '))
        self.visit(node.operand2)
        c = getattr(node, 'cascade', None)
        while c is not None:
            self.put(' %s ' % c.operator.replace('_', ' '))
            self.visit(c.operand2)
            c = getattr(c, 'cascade', None)
        self.put(')')

    def visit_BoolBinopNode(self, node):
        self.visit_BinopNode(node)

    def visit_PrimaryCmpNode(self, node):
        self.visit_BinopNode(node)

    def visit_NotNode(self, node):
        self.put('(not ')
        self.visit(node.operand)
        self.put(')')

    def visit_UnopNode(self, node):
        self.put('(%s' % node.operator)
        self.visit(node.operand)
        self.put(')')

    def visit_CondExprNode(self, node):
        self.put('(')
        self.visit(node.true_val)
        self.put(' if ')
        self.visit(node.condition)
        self.put(' else ')
        self.visit(node.false_val)
        self.put(')')

    def visit_NewExprNode(self, node):
        self.drop('C++ new')
        self.put('cpp_new')

    def visit_AsTupleNode(self, node):
        self.put('tuple(')
        self.visit(node.arg)
        self.put(')')

    def visit_ExceptClauseNode(self, node):
        self.startline('except')
        pat = node.pattern
        if pat:
            self.put(' ')
            if isinstance(pat, list):
                if len(pat) == 1:
                    self.visit(pat[0])
                else:
                    self.put('(')
                    self.comma_separated_list(pat)
                    self.put(')')
            else:
                self.visit(pat)
        if node.target is not None:
            self.put(' as ')
            self.visit(node.target)
        self.endline(':')
        self._visit_indented(node.body)

    def visit_NullNode(self, node):
        self.put('None')

    def visit_SizeofTypeNode(self, node):
        self.put('sizeof_type')

    def visit_SizeofVarNode(self, node):
        self.put('sizeof_var')

    def visit_StringNode(self, node):
        self.put(repr(str(node.value)))

    def visit_UnicodeNode(self, node):
        self.put(repr(str(node.value)))

    def visit_BytesNode(self, node):
        self.put(repr(bytes(node.value.encode('latin1'))
                      if isinstance(node.value, str) else bytes(node.value)))

    def visit_JoinedStrNode(self, node):
        self.put("'<fstring>'")

    def visit_LambdaNode(self, node):
        self.put('lambda_dropped')

    def visit_StarredUnpackingNode(self, node):
        self.put('*')
        self.visit(node.target)

    def visit_CloneNode(self, node):
        self.visit(node.arg)

    def visit_MemoryViewSliceTypeNode(self, node):
        self.put('memview')

    def visit_CythonArrayNode(self, node):
        self.visit(node.operand)

    def visit_DictNode(self, node):
        self.put('{')
        first = True
        for it in node.key_value_pairs:
            if not first:
                self.put(', ')
            first = False
            self.visit(it.key)
            self.put(': ')
            self.visit(it.value)
        self.put('}')

    def visit_GeneralCallNode(self, node):
        self.visit(node.function)
        self.put('(')
        pa = node.positional_args
        first = True
        if isinstance(pa, ExprNodes.TupleNode):
            for x in pa.args:
                if not first:
                    self.put(', ')
                first = False
                self.visit(x)
        else:
            self.put('*')
            self.visit(pa)
            first = False
        kw = node.keyword_args
        if kw is not None:
            if isinstance(kw, ExprNodes.DictNode):
                for it in kw.key_value_pairs:
                    if not first:
                        self.put(', ')
                    first = False
                    self.put(str(getattr(it.key, 'value', getattr(it.key, 'name', '?'))) + '=')
                    self.visit(it.value)
            else:
                self.put(('' if first else ', ') + '**')
                self.visit(kw)
        self.put(')')

    def visit_MergedDictNode(self, node):
        self.put('dict(')
        first = True
        for kw in node.keyword_args:
            if isinstance(kw, ExprNodes.DictNode):
                for it in kw.key_value_pairs:
                    if not first:
                        self.put(', ')
                    first = False
                    self.put(str(getattr(it.key, 'value', getattr(it.key, 'name', '?'))) + '=')
                    self.visit(it.value)
            else:
                # f(**mapping): keep the mapping (it was dropped before)
                if not first:
                    self.put(', ')
                first = False
                self.put('**')
                self.visit(kw)
        self.put(')')

    def visit_TryFinallyStatNode(self, node):
        self.line('try:')
        self._visit_indented(node.body)
        self.line('finally:')
        self._visit_indented(node.finally_clause)

    def visit_YieldExprNode(self, node):
        self.put('yield_dropped')

    def visit_ExprStatNode(self, node):
        # docstring-like string statements are dropped
        if isinstance(node.expr, (ExprNodes.UnicodeNode, ExprNodes.BytesNode,
                                  getattr(ExprNodes, 'StringNode',
                                          ExprNodes.UnicodeNode))):
            self.line('pass')
            return
        self.startline()
        self.visit(node.expr)
        self.endline()


def convert(path):
    src = open(path).read()
    kw = dict(level='module_pxd') if path.endswith('.pxd') else {}
    tree = parse_from_strings(path.split('/')[-1].split('.')[0], src, **kw)
    w = Py()
    w.visit(tree)
    text = '\n'.join(w.result.lines) + '\n'
    # second pass for machine-integer contracts: the same text, except that
    # integer casts keep their C type (c_cast('<type>', e))
    tree2 = parse_from_strings(path.split('/')[-1].split('.')[0], src, **kw)
    w2 = Py()
    w2.typed = True
    w2.visit(tree2)
    typed = '\n'.join(w2.result.lines) + '\n'
    return dict(text=text, lines=w.lines, dropped=w.dropped, typed_text=typed,
                ctypes=w.ctypes, cattrs=w.cattrs, typedefs=w.typedefs)


if __name__ == '__main__':
    out = {}
    outpath = sys.argv[1]
    for p in sys.argv[2:]:
        try:
            out[p] = convert(p)
        except Exception as e:
            import traceback
            out[p] = dict(error='%s: %s' % (type(e).__name__, e),
                          tb=traceback.format_exc()[-3000:])
    with open(outpath, 'w') as f:
        json.dump(out, f)
