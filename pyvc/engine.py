"""Check driver: runs a property's contract module, discharges obligations in a
process pool, compares with the committed baseline and known findings, writes
evidence and replay files, prints VIOLATION / KNOWN-FINDING lines.

Exit codes: 0 property held (every claimed obligation proved; known findings
printed) | 1 violation | 2 undecided obligation with no proved baseline |
3 crash of the machinery.
"""
import argparse
import importlib
import json
import multiprocessing as mp
import os
import sys
import time
import traceback

import z3

from . import backends as B
from . import sym as S
from .symexec import Obligation

VERIF = os.path.dirname(os.path.dirname(os.path.abspath(__file__)))

ENCODING_ASSUMPTIONS = [
    "float is read as R: decimal literals are exact rationals, math.pi is "
    "the real pi; every result is therefore 'up to rounding'",
    "'/' is real division; each division/sqrt generates a definedness "
    "obligation or an explicit hypothesis (stated per contract)",
    "sqrt/exp/pow/sin/cos/... are uninterpreted with per-occurrence axioms "
    "(sqrt(x)^2=x for x>=0, monotonicity, exp>0, exp(0)=1, |sin|,|cos|<=1)",
    "Python and C integers are mathematical integers",
    "lists of fixed length are tuples of terms; arrays of unknown length are "
    "SMT arrays with a length; `for x in seq` iterates in index order",
    "distinct array parameters do not alias unless the contract says so",
    "pyvc (the VC generator written for this task), CPython ast, z3 5.1, "
    "cvc5 1.0, sympy are trusted",
]


class TaskCtx(object):
    """Collects what a task did; passed to contract code."""

    def __init__(self, task, tier, seed):
        self.task = task
        self.tier = tier
        self.seed = seed
        self.functions = []
        self.results = []
        self.bounded = []
        self.assumptions = []
        self.notes = []
        self.errors = []
        self.samples = []

    # -- bookkeeping
    def function(self, module, node, qualname, dropped=(), extraction=''):
        l0, l1 = module.lines_of(node)
        if getattr(module, 'is_cython', False):
            l0 = module.pyx_lines.get(qualname, 0)
            l1 = l0 + (l1 - module.lines_of(node)[0])
            extraction = extraction or (
                'mechanical Cython->Python extraction (pyvc/cy2py.py); '
                'dropped in this file: %s' % json.dumps(module.dropped,
                                                        sort_keys=True))
        rec = dict(file=os.path.relpath(module.path, '/'), qualname=qualname,
                   lines=[l0, l1], sha=module.hash_of(node),
                   dropped=sorted(dropped))
        if extraction:
            rec['extraction'] = extraction
        for f in self.functions:
            if f['file'] == rec['file'] and f['qualname'] == qualname:
                f['dropped'] = sorted(set(f['dropped']) | set(dropped))
                return
        self.functions.append(rec)

    def assume(self, text):
        if text not in self.assumptions:
            self.assumptions.append(text)

    def note(self, text):
        self.notes.append(text)

    # -- proving
    def prove(self, name, obs, replay=None, expect=None, sample=False,
              use_nf=True, info=None, budget_s=None):
        """Discharge a named obligation made of sub-obligations `obs`.
        replay(model, ob) -> dict(reproduced=bool, ...) runs the REAL code."""
        if isinstance(obs, Obligation):
            obs = [obs]
        t0 = time.time()
        verdict = 'proved'
        backends = {}
        failing = []
        rep = None
        nq = 0
        budget = budget_s if budget_s is not None else (
            240.0 if self.tier == 'quick' else 1800.0)
        for ob in obs:
            nq += 1
            try:
                if time.time() - t0 > budget:
                    r = B.Result('unknown', 'budget', 0.0,
                                 note='obligation wall budget exhausted')
                else:
                    r = B.discharge(ob, self.tier, self.seed, use_nf=use_nf)
            except Exception as e:       # solver crash = unknown
                r = B.Result('unknown', 'error', 0.0,
                             note='%s: %s' % (type(e).__name__, e))
            backends[r.backend] = backends.get(r.backend, 0) + 1
            if r.verdict == 'proved':
                continue
            d = dict(sub=ob.name, where=ob.where, verdict=r.verdict,
                     backend=r.backend, note=r.note[:300], model=r.model,
                     goal=_short(ob.goal))
            if r.verdict == 'refuted':
                verdict = 'refuted'
                if replay is not None and rep is None:
                    try:
                        rep = replay(r.model, ob)
                    except Exception as e:
                        rep = dict(reproduced=False,
                                   error='%s: %s' % (type(e).__name__, e),
                                   tb=traceback.format_exc()[-800:])
                    d['replay'] = rep
                failing.append(d)
                if rep is not None and rep.get('reproduced'):
                    break
            else:
                if verdict == 'proved':
                    verdict = 'unknown'
                failing.append(d)
        if verdict == 'unknown' and replay is not None and rep is None \
                and failing:
            # no counter-model from the solver: still look for a failing
            # input on the real code (the replay harnesses carry their own
            # input batteries); a hit makes it a replayed refutation
            try:
                rep = replay({}, obs[0])
            except Exception as e:
                rep = dict(reproduced=False,
                           error='%s: %s' % (type(e).__name__, e))
            failing[0]['replay'] = rep
            if rep.get('reproduced'):
                verdict = 'refuted'
        rec = dict(name=name, verdict=verdict, queries=nq,
                   backends=backends, seconds=round(time.time() - t0, 3),
                   failing=failing[:5], replay=rep, info=info or '')
        if sample or (len(self.samples) < 2 and obs):
            ob = obs[0]
            self.samples.append(dict(
                obligation=name, where=ob.where,
                hyps=[_short(h, 160) for h in ob.hyps[:8]],
                goal=_short(ob.goal, 400)))
        self.results.append(rec)
        return rec

    def outside(self, name, why):
        """A function fell outside the accepted subset."""
        self.results.append(dict(name=name, verdict='outside-subset',
                                 queries=0, backends={}, seconds=0.0,
                                 failing=[dict(note=why[:400])],
                                 replay=None, info=''))

    def cover(self, name, hyps, timeout_ms=5000):
        """Vacuity guard: the hypotheses must be satisfiable."""
        ob = Obligation(name, hyps, z3.BoolVal(True))
        fs, ab = B.build_query(ob, negate=False)
        s = z3.Solver()
        s.set('timeout', timeout_ms)
        for f in fs:
            s.add(f)
        r = s.check()
        ok = (r == z3.sat)
        self.results.append(dict(name=name, verdict='covered' if ok else
                                 ('vacuous' if r == z3.unsat else
                                  'cover-unknown'),
                                 queries=1, backends={'z3': 1}, seconds=0.0,
                                 failing=[], replay=None, info='cover',
                                 kind='cover'))
        return ok

    def canary(self, name, ob):
        """A deliberately false obligation: must come back refuted."""
        r = B.discharge(ob, self.tier, self.seed)
        self.results.append(dict(name=name, verdict='canary-ok' if
                                 r.verdict == 'refuted' else 'canary-broken',
                                 queries=1, backends={r.backend: 1},
                                 seconds=r.seconds, failing=[], replay=None,
                                 info='canary', kind='canary'))

    def bounded_check(self, name, bound, cases, ok, detail=''):
        self.bounded.append(dict(name=name, bound=bound, cases=cases, ok=ok,
                                 detail=detail))

    def export(self):
        return dict(task=self.task, functions=self.functions,
                    results=self.results, bounded=self.bounded,
                    assumptions=self.assumptions, notes=self.notes,
                    errors=self.errors, samples=self.samples)


def _short(e, n=240):
    try:
        s = str(z3.simplify(e)) if S.is_sym(e) else str(e)
    except Exception:
        s = str(e)
    s = ' '.join(s.split())
    return s if len(s) <= n else s[:n] + ' ...'


def _run_task(arg):
    prop, task, tier, seed = arg
    t0 = time.time()
    ctx = TaskCtx(task, tier, seed)
    try:
        mod = importlib.import_module('contracts.' + prop)
        mod.run_task(task, ctx)
    except S.VCError as e:
        ctx.outside('%s.subset' % task, str(e))
    except Exception as e:
        ctx.errors.append('%s: %s\n%s' % (type(e).__name__, e,
                                          traceback.format_exc()[-1500:]))
    d = ctx.export()
    d['seconds'] = round(time.time() - t0, 3)
    return d


def _child(arg, conn):
    try:
        conn.send(_run_task(arg))
    except Exception as e:            # unpicklable result etc.
        ctx = TaskCtx(arg[1], arg[2], arg[3])
        ctx.errors.append('%s: %s' % (type(e).__name__, e))
        conn.send(ctx.export())
    finally:
        conn.close()


def _run_parallel(args, jobs, limit_s):
    """One process per task, at most `jobs` at a time.  A task that exceeds
    the wall-clock limit (a solver call that never returns) is killed and
    run once more; if it overruns again it is reported as undecided -- the
    check then exits 2, it never hangs."""
    ctxm = mp.get_context('fork')
    todo = [(x, 0) for x in args]
    running = {}
    outs = []
    while todo or running:
        while todo and len(running) < jobs:
            arg, attempt = todo.pop(0)
            pc, cc = ctxm.Pipe(duplex=False)
            pr = ctxm.Process(target=_child, args=(arg, cc))
            pr.start()
            cc.close()
            running[pr.pid] = (pr, pc, arg, attempt, time.time())
        done = []
        for pid, (pr, pc, arg, attempt, t_start) in running.items():
            if pc.poll(0):
                try:
                    outs.append(pc.recv())
                except EOFError:
                    ctx = TaskCtx(arg[1], arg[2], arg[3])
                    ctx.errors.append('worker died without a result')
                    outs.append(ctx.export())
                pr.join(5)
                done.append(pid)
            elif not pr.is_alive():
                # the worker may have sent its result and exited between the
                # poll above and this test: look once more before calling it
                # dead
                got = None
                if pc.poll(0.5):
                    try:
                        got = pc.recv()
                    except EOFError:
                        got = None
                if got is None:
                    ctx = TaskCtx(arg[1], arg[2], arg[3])
                    ctx.errors.append('worker exited with code %s' %
                                      pr.exitcode)
                    got = ctx.export()
                outs.append(got)
                pr.join(5)
                done.append(pid)
            elif time.time() - t_start > limit_s:
                pr.kill()
                pr.join(5)
                if attempt == 0:
                    todo.append((arg, 1))
                else:
                    ctx = TaskCtx(arg[1], arg[2], arg[3])
                    ctx.outside('%s.timeout' % arg[1], 'task exceeded %d s '
                                'twice and was killed' % limit_s)
                    d = ctx.export()
                    d['seconds'] = limit_s
                    d['timed_out'] = True
                    outs.append(d)
                done.append(pid)
        for pid in done:
            running.pop(pid)
        if not done:
            time.sleep(0.05)
    return outs


def load_json(path, default):
    try:
        with open(path) as f:
            return json.load(f)
    except FileNotFoundError:
        return default


def main(argv=None):
    ap = argparse.ArgumentParser(prog='check')
    ap.add_argument('prop')
    ap.add_argument('--tier', default=os.environ.get('VERIF_TIER', 'quick'),
                    choices=['quick', 'thorough'])
    ap.add_argument('--jobs', type=int, default=int(os.environ.get(
        'PYVC_JOBS', '16')))
    ap.add_argument('--write-baseline', action='store_true')
    ap.add_argument('--replay', default=None)
    ap.add_argument('--only', default=None, help='substring filter on tasks')
    ap.add_argument('-v', action='store_true')
    a = ap.parse_args(argv)
    seed = int(os.environ.get('VERIF_SEED', '0') or 0)
    prop = a.prop
    sys.path.insert(0, VERIF)
    os.chdir(VERIF)
    t0 = time.time()
    try:
        mod = importlib.import_module('contracts.' + prop)
    except Exception:
        traceback.print_exc()
        return 3
    if a.replay:
        with open(a.replay) as f:
            data = json.load(f)
        out = mod.replay_file(data)
        print(json.dumps(out, indent=1, default=str))
        return 1 if out.get('reproduced') else 0
    try:
        tasks = list(mod.tasks(a.tier))
    except Exception:
        traceback.print_exc()
        return 3
    if a.only:
        tasks = [t for t in tasks if a.only in t]
    args = [(prop, t, a.tier, seed) for t in tasks]
    outs = []
    if a.jobs <= 1 or len(args) <= 1:
        outs = [_run_task(x) for x in args]
    else:
        outs = _run_parallel(args, min(a.jobs, len(args)),
                             int(os.environ.get('PYVC_TASK_LIMIT', 0)) or (
                                 1800 if a.tier == 'quick' else 4 * 3600))
    outs.sort(key=lambda d: tasks.index(d['task']))
    return report(prop, mod, a, outs, seed, t0)


def report(prop, mod, a, outs, seed, t0):
    baseline_path = os.path.join(VERIF, 'contracts', 'baseline',
                                 prop + '.json')
    baseline = load_json(baseline_path, {'proved': [], 'known': []})
    findings = [f for f in load_json(os.path.join(VERIF,
                                                  'known_findings.json'),
                                     {'findings': []})['findings']
                if f.get('property') == prop]
    import re as _re

    class _Open(dict):
        """obligation name -> open finding (exact name or regex)."""

        def __init__(self, fs):
            self.fs = [f for f in fs if f.get('status') == 'open']

        def _find(self, n):
            for f in self.fs:
                if f.get('obligation') == n:
                    return f
                if f.get('obligation_re') and _re.fullmatch(
                        f['obligation_re'], n):
                    return f
            return None

        def __contains__(self, n):
            return self._find(n) is not None

        def __getitem__(self, n):
            return self._find(n)
    open_f = _Open(findings)
    results = []
    errors = []
    functions = []
    bounded = []
    assumptions = list(getattr(mod, 'ASSUMPTIONS', []))
    samples = []
    notes = []
    for d in outs:
        results.extend(d['results'])
        errors.extend(d['errors'])
        for f in d['functions']:
            if f not in functions:
                functions.append(f)
        bounded.extend(d['bounded'])
        for x in d['assumptions']:
            if x not in assumptions:
                assumptions.append(x)
        samples.extend(d['samples'])
        notes.extend(d['notes'])
    claimed = [r for r in results if r.get('kind') not in ('cover',
                                                            'canary')]
    guards = [r for r in results if r.get('kind') in ('cover', 'canary')]
    names = [r['name'] for r in claimed]
    dup = set(n for n in names if names.count(n) > 1)
    if dup:
        errors.append('duplicate obligation names: %s' % sorted(dup)[:5])
    byname = {r['name']: r for r in claimed}

    if a.write_baseline:
        os.makedirs(os.path.dirname(baseline_path), exist_ok=True)
        bl = dict(
            proved=sorted(r['name'] for r in claimed
                          if r['verdict'] == 'proved'),
            known=sorted(r['name'] for r in claimed
                         if r['verdict'] != 'proved'),
            tier=a.tier)
        old = load_json(baseline_path, None)
        if old and ((a.tier == 'quick' and old.get('tier') == 'thorough')
                    or getattr(a, 'only', None)):
            # keep thorough-only names / names of tasks not run (--only)
            bl['proved'] = sorted(set(bl['proved']) | set(
                n for n in old['proved'] if n not in byname))
            bl['known'] = sorted(set(bl['known']) | set(
                n for n in old.get('known', []) if n not in byname))
            bl['tier'] = old.get('tier', a.tier)
        with open(baseline_path, 'w') as f:
            json.dump(bl, f, indent=1)
        print('baseline written: %d proved, %d not proved' %
              (len(bl['proved']), len(bl['known'])))
        for n in bl['known']:
            print('   not proved:', n, byname[n]['verdict'] if n in byname
                  else '(kept from the previous baseline)')

    violations = []
    known_lines = []
    known_hits = {}
    undecided = []
    proved = 0
    os.makedirs(os.path.join(VERIF, 'replays'), exist_ok=True)
    base_proved = set(baseline.get('proved', []))
    task_names = set(d['task'] for d in outs)

    def in_scope(n):
        if a.only:
            return n in byname
        if a.tier == 'quick' and baseline.get('tier') == 'thorough':
            # names only produced by the thorough tier are not expected
            tq = baseline.get('quick_names')
            return tq is None or n in tq
        return True

    for r in claimed:
        n = r['name']
        if r['verdict'] == 'proved':
            proved += 1
            continue
        rep = r.get('replay') or {}
        if n in open_f:
            # a listed finding: still failing as recorded
            if r['verdict'] == 'refuted' or r['verdict'] == 'unknown' \
                    or r['verdict'] == 'outside-subset':
                f_ = open_f[n]
                known_hits.setdefault(id(f_), (f_, []))[1].append(n)
                continue
        reproduced = bool(rep.get('reproduced'))
        path = os.path.join(VERIF, 'replays', '%s__%s.json' % (
            prop, n.replace('/', '_').replace(' ', '_')))
        if r['verdict'] == 'refuted' and reproduced:
            _write_replay(path, prop, r, 'counterexample replayed on the '
                          'real code')
            violations.append((n, path, ''))
        elif n in base_proved:
            _write_replay(path, prop, r, 'obligation proved on the baseline '
                          'tree is no longer discharged')
            violations.append((n, path, ' no-failing-input-found'))
        else:
            undecided.append(r)
    # failing cases of a bounded stand-in that are listed findings
    for b in bounded:
        if not b['ok'] and b['name'] in open_f:
            f_ = open_f[b['name']]
            known_hits.setdefault(id(f_), (f_, []))[1].append(b['name'])
            b['known_finding'] = True
    for f_, ns in known_hits.values():
        known_lines.append('KNOWN-FINDING: property=%s %s [%d obligation%s: '
                           '%s]' % (prop, f_.get('what', ''), len(ns),
                                    's' if len(ns) > 1 else '',
                                    ', '.join(ns[:3]) +
                                    (', ...' if len(ns) > 3 else '')))
    # obligations that disappeared (not decidable when a task was killed by
    # the watchdog: its obligations are unknown, never violations)
    timed = [d['task'] for d in outs if d.get('timed_out')]
    if not a.only and not timed:
        for n in sorted(base_proved):
            if n not in byname and in_scope(n):
                path = os.path.join(VERIF, 'replays', '%s__%s.json' % (
                    prop, n.replace('/', '_').replace(' ', '_')))
                _write_replay(path, prop, dict(
                    name=n, verdict='missing', failing=[dict(
                        note='obligation no longer generated (function '
                        'missing or outside subset)')], replay=None),
                    'obligation of the baseline is no longer generated')
                violations.append((n, path, ' no-failing-input-found'))
    guard_bad = [g for g in guards if g['verdict'] not in ('covered',
                                                           'canary-ok')]
    wall = time.time() - t0
    n_claim = len([r for r in claimed if r['name'] not in open_f or
                   r['verdict'] == 'proved'])
    ev = dict(
        property_id=prop, tier=a.tier, seed=seed, level='proof',
        coverage=dict(
            obligations=n_claim,
            discharged=proved,
            queries=sum(r['queries'] for r in claimed),
            checker_cmd='./check %s --tier %s' % (prop, a.tier),
            trusted_base=getattr(mod, 'TRUSTED', []) + [
                'pyvc VC generator (this directory)', 'z3 5.1.0',
                'cvc5 1.0.3', 'sympy 1.14', 'CPython ast'],
            functions_under_contract=functions,
            per_obligation=[dict(name=r['name'], verdict=r['verdict'],
                                 queries=r['queries'],
                                 backends=r['backends'],
                                 seconds=r['seconds'])
                            for r in claimed],
            solver_seconds=round(sum(r['seconds'] for r in claimed), 2),
            vacuity_guards=[dict(name=g['name'], verdict=g['verdict'])
                            for g in guards],
            bounded=bounded,
            known_findings=[dict(obligation=k.split()[2] if False else k)
                            for k in known_lines],
            samples=samples[:6] or [dict(note='no obligations')],
            notes=notes[:40],
            not_proved=[dict(name=r['name'], verdict=r['verdict'],
                             failing=r['failing'][:2])
                        for r in claimed if r['verdict'] != 'proved'][:30],
        ),
        assumptions=ENCODING_ASSUMPTIONS + assumptions,
        wall_s=round(wall, 2),
        violations=len(violations),
    )
    os.makedirs(os.path.join(VERIF, 'evidence'), exist_ok=True)
    if not a.only:
        evdir = os.path.join(VERIF, 'evidence')
        if os.environ.get('PYVC_REPO', '/repo') not in ('/repo', ''):
            # development runs against a scratch copy (mutation testing) must
            # not overwrite the evidence of /repo itself
            evdir = os.path.join(VERIF, 'replays', 'scratch_evidence')
            os.makedirs(evdir, exist_ok=True)
        with open(os.path.join(evdir, prop + '.json'), 'w') as f:
            json.dump(ev, f, indent=1, default=str)
    for line in known_lines:
        print(line)
    print('%s tier=%s: %d/%d obligations discharged (%d queries), %d '
          'known findings, %d bounded, %d functions, %.1fs' % (
              prop, a.tier, proved, n_claim, ev['coverage']['queries'],
              len(known_lines), len(bounded), len(functions), wall))
    if a.v:
        for r in claimed:
            if r['verdict'] != 'proved':
                print('  ', r['name'], r['verdict'],
                      json.dumps(r['failing'][:1], default=str)[:600])
    if errors:
        for e in errors:
            print('CHECKER-ERROR:', e, file=sys.stderr)
        return 3
    if guard_bad:
        for g in guard_bad:
            print('CHECKER-ERROR: vacuity guard %s: %s' % (
                g['name'], g['verdict']), file=sys.stderr)
        return 3
    if not claimed:
        print('CHECKER-ERROR: zero obligations generated', file=sys.stderr)
        return 3
    if violations:
        for n, path, tail in violations:
            print('VIOLATION property=%s replay=%s obligation=%s%s' % (
                prop, path, n, tail))
        return 1
    if any(not b['ok'] and not b.get('known_finding') for b in bounded):
        # a bounded stand-in is never counted as proved, but a failing case
        # it found is a concrete failing input on the real code
        for b in bounded:
            if not b['ok'] and not b.get('known_finding'):
                path = os.path.join(VERIF, 'replays', '%s__bounded_%s.json'
                                    % (prop, b['name'].replace('/', '_')))
                with open(path, 'w') as f:
                    json.dump(dict(property=prop, obligation=b['name'],
                                   verdict='bounded-check-failed',
                                   why='failing case found by the bounded '
                                   'stand-in on the real code',
                                   bound=b['bound'], replay=b['detail']), f,
                              indent=1, default=str)
                print('VIOLATION property=%s replay=%s obligation=%s '
                      '(bounded stand-in)' % (prop, path, b['name']))
        return 1
    if undecided:
        for r in undecided:
            print('UNDECIDED %s (%s) %s' % (
                r['name'], r['verdict'],
                json.dumps(r['failing'][:1], default=str)[:400]))
        return 2
    return 0


def _write_replay(path, prop, r, why):
    with open(path, 'w') as f:
        json.dump(dict(property=prop, obligation=r['name'],
                       verdict=r['verdict'], why=why,
                       replay=r.get('replay'),
                       solver_output=r.get('failing', [])[:5]), f, indent=1,
                  default=str)


if __name__ == '__main__':
    os.environ.setdefault('PYVC_RUN_ID', '%d' % os.getpid())
    try:
        rc = main()
    finally:
        try:
            from . import native as _native
            _native.cleanup_builds()
        except Exception:
            pass
    sys.exit(rc)
