"""Write-frame analysis of per-particle methods (equations, steppers).

A method that runs under `prange` over destination indices must only write
its own row:   d_P[s * d_idx + r],  0 <= r < s   for a constant stride s.
For every store statement the index expression is evaluated over the integers
(abstract interpretation of the integer locals of the method: constants,
d_idx, s_idx, `for i in range(...)` variables with their ranges, simple
assignments; anything else is an unconstrained integer) and z3 is asked to
prove the row condition for some constant stride.  A store to an `s_*` array
or an unprovable `d_*` index is a frame violation candidate.
"""
import ast
import z3


class Store(object):
    def __init__(self, array, line, text, verdict, stride=None, note=''):
        self.array, self.line, self.text = array, line, text
        self.verdict, self.stride, self.note = verdict, stride, note

    def key(self):
        return '%s:%d' % (self.array, self.line)


def init_relations(cdef, an):
    """Integer relations between instance attributes set by __init__
    (self.dim = dim; self.dimsq = dim*dim): evaluated in order over fresh
    integers for the constructor parameters."""
    for node in cdef.body:
        if isinstance(node, ast.FunctionDef) and node.name == '__init__':
            env = {}
            for a in node.args.args[1:]:
                env[a.arg] = z3.Int('init.' + a.arg)
            saved = an.env
            an.env = dict(env)
            for st in node.body:
                if isinstance(st, ast.Assign) and len(st.targets) == 1:
                    t = st.targets[0]
                    if isinstance(t, ast.Attribute) and isinstance(
                            t.value, ast.Name) and t.value.id == 'self':
                        v = an.ev(st.value)
                        if v is not None:
                            k = 'self.' + t.attr
                            c = an.ev(ast.Attribute(
                                value=ast.Name(id='self', ctx=ast.Load()),
                                attr=t.attr, ctx=ast.Load()))
                            an.pc.append(c == v)
                    elif isinstance(t, ast.Name):
                        v = an.ev(st.value)
                        an.env[t.id] = v if v is not None else \
                            an.fresh(t.id)
            an.env = saved


class FrameAnalyzer(object):
    STRIDES = list(range(1, 17)) + [18, 20, 24, 25, 27, 32, 36, 48, 64, 81]

    def __init__(self, fn, src_of=None):
        self.fn = fn
        self.src_of = src_of or (lambda n: '')
        self.d_idx = z3.Int('d_idx')
        self.s_idx = z3.Int('s_idx')
        self.env = {'d_idx': self.d_idx, 's_idx': self.s_idx}
        self.pc = [self.d_idx >= 0, self.s_idx >= 0]
        self.stores = []
        self.n = 0
        self.attr_consts = {}
        self.designated = 0

    def fresh(self, name):
        self.n += 1
        return z3.Int('%s!%d' % (name, self.n))

    # ---- integer expression evaluation (None = not an integer term)
    def ev(self, node):
        if isinstance(node, ast.Constant):
            if isinstance(node.value, bool):
                return None
            if isinstance(node.value, int):
                return z3.IntVal(node.value)
            return None
        if isinstance(node, ast.Name):
            return self.env.get(node.id)
        if isinstance(node, ast.UnaryOp) and isinstance(node.op, ast.USub):
            v = self.ev(node.operand)
            return -v if v is not None else None
        if isinstance(node, ast.BinOp):
            a, b = self.ev(node.left), self.ev(node.right)
            if a is None or b is None:
                return None
            if isinstance(node.op, ast.Add):
                return a + b
            if isinstance(node.op, ast.Sub):
                return a - b
            if isinstance(node.op, ast.Mult):
                return a * b
            if isinstance(node.op, (ast.FloorDiv, ast.Div)):
                # declared C ints: `/` is integer division in the
                # transpiled code (cdivision), the operands are integers here
                return a / b
            if isinstance(node.op, ast.Mod):
                return a % b
            return None
        if isinstance(node, ast.Attribute) and isinstance(node.value,
                                                          ast.Name) and \
                node.value.id == 'self':
            # an integer instance attribute (dim, ...): unknown but fixed
            k = 'self.' + node.attr
            if k not in self.attr_consts:
                v = z3.Int(k)
                self.attr_consts[k] = v
                # spatial dimension: 1..3 (documented); other integer
                # parameters used in indices: at least 1
                self.pc.append(v >= 1)
                if node.attr in ('dim', 'd', 'n', 'ndim'):
                    self.pc.append(v <= 3)
            return self.attr_consts[k]
        if isinstance(node, ast.Call) and isinstance(node.func, ast.Name) \
                and node.func.id == 'int' and node.args:
            return self.ev(node.args[0])
        return None

    # ---- statements
    def run(self):
        self.block(self.fn.body)
        return self.stores

    def block(self, stmts):
        for s in stmts:
            self.stmt(s)

    def assigned_in(self, stmts):
        out = set()
        for s in stmts:
            for n in ast.walk(s):
                if isinstance(n, ast.Name) and isinstance(n.ctx, ast.Store):
                    out.add(n.id)
        return out

    def stmt(self, s):
        if isinstance(s, ast.Assign):
            for t in s.targets:
                self.target(t, s.value, s)
        elif isinstance(s, ast.AugAssign):
            if isinstance(s.target, ast.Subscript):
                self.store(s.target, s)
            elif isinstance(s.target, ast.Name):
                cur = self.env.get(s.target.id)
                rhs = self.ev(s.value)
                if cur is not None and rhs is not None and isinstance(
                        s.op, (ast.Add, ast.Sub)):
                    self.env[s.target.id] = cur + rhs if isinstance(
                        s.op, ast.Add) else cur - rhs
                else:
                    self.env[s.target.id] = self.fresh(s.target.id)
        elif isinstance(s, ast.AnnAssign) and s.value is not None:
            self.target(s.target, s.value, s)
        elif isinstance(s, ast.For):
            self.for_(s)
        elif isinstance(s, ast.While):
            for n in self.assigned_in(s.body):
                self.env[n] = self.fresh(n)
            self.block(s.body)
            for n in self.assigned_in(s.body):
                self.env[n] = self.fresh(n)
        elif isinstance(s, ast.If):
            saved = dict(self.env)
            # `if d_idx == 0:` -- a block executed by one designated particle
            # (hence one thread): stores inside cannot race with each other
            t = s.test
            desig = isinstance(t, ast.Compare) and len(t.ops) == 1 and \
                isinstance(t.ops[0], ast.Eq) and isinstance(
                    t.left, ast.Name) and t.left.id == 'd_idx' and \
                isinstance(t.comparators[0], ast.Constant)
            if desig:
                self.designated += 1
            self.block(s.body)
            if desig:
                self.designated -= 1
            e1 = self.env
            self.env = dict(saved)
            self.block(s.orelse)
            e2 = self.env
            merged = {}
            for k in set(e1) | set(e2):
                a, b = e1.get(k), e2.get(k)
                if a is not None and b is not None and a.eq(b):
                    merged[k] = a
                elif k in e1 or k in e2:
                    merged[k] = self.fresh(k)
            self.env = merged
        elif isinstance(s, (ast.With,)):
            self.block(s.body)
        elif isinstance(s, ast.Try):
            self.block(s.body)
            for h in s.handlers:
                self.block(h.body)
            self.block(s.orelse)
            self.block(s.finalbody)

    def target(self, t, value, s):
        if isinstance(t, ast.Subscript):
            self.store(t, s)
        elif isinstance(t, ast.Name):
            v = self.ev(value)
            self.env[t.id] = v if v is not None else self.fresh(t.id)
        elif isinstance(t, (ast.Tuple, ast.List)):
            for e in t.elts:
                if isinstance(e, ast.Name):
                    self.env[e.id] = self.fresh(e.id)
                elif isinstance(e, ast.Subscript):
                    self.store(e, s)

    def for_(self, s):
        it = s.iter
        npc = len(self.pc)
        saved_assigned = self.assigned_in(s.body)
        # variables modified in the body are arbitrary at the loop head
        for n in saved_assigned:
            if not (isinstance(s.target, ast.Name) and n == s.target.id):
                self.env[n] = self.fresh(n)
        if isinstance(s.target, ast.Name):
            v = self.fresh(s.target.id)
            self.env[s.target.id] = v
            if isinstance(it, ast.Call) and isinstance(it.func, ast.Name) \
                    and it.func.id == 'range':
                a = [self.ev(x) for x in it.args]
                if len(a) == 1 and a[0] is not None:
                    self.pc += [v >= 0, v < a[0]]
                elif len(a) >= 2 and a[0] is not None and a[1] is not None:
                    step = it.args[2] if len(a) == 3 else None
                    neg = isinstance(step, ast.UnaryOp) or (
                        isinstance(step, ast.Constant) and
                        isinstance(step.value, int) and step.value < 0)
                    if neg:
                        self.pc += [v <= a[0], v > a[1]]
                    else:
                        self.pc += [v >= a[0], v < a[1]]
        self.block(s.body)
        del self.pc[npc:]
        for n in saved_assigned:
            self.env[n] = self.fresh(n)

    def store(self, t, s):
        base = t.value
        if not isinstance(base, ast.Name):
            return
        name = base.id
        if not (name.startswith('d_') or name.startswith('s_')):
            return
        text = (self.src_of(s) or '').strip().split('\n')[0][:120]
        if self.designated and name.startswith('d_'):
            self.stores.append(Store(name, s.lineno, text, 'own-row',
                                     stride='designated particle',
                                     note='inside `if d_idx == c`'))
            return
        if name.startswith('s_'):
            self.stores.append(Store(name, s.lineno, text, 'source-write',
                                     note='store to a source array'))
            return
        idx = t.slice
        e = self.ev(idx)
        if e is None:
            self.stores.append(Store(name, s.lineno, text, 'unknown-index',
                                     note='index is not an integer term'))
            return
        cands = list(self.STRIDES)
        # integer literals and symbolic constants of the index expression
        # (d_coeff[d_idx*100 + i], d_x[dim*d_idx + i]) are candidates too
        syms = []

        def walk(t):
            if z3.is_int_value(t):
                v = t.as_long()
                if v > 1 and v not in cands:
                    cands.append(v)
            elif z3.is_const(t) and str(t).startswith('self.'):
                if not any(t.eq(x) for x in syms):
                    syms.append(t)
            for c in t.children():
                walk(c)
        walk(e)
        for a in list(syms):
            for b in list(syms):
                syms.append(a * b)
        for st in cands + syms:
            sol = z3.Solver()
            sol.set('timeout', 2000)
            for c in self.pc:
                sol.add(c)
            sol.add(z3.Not(z3.And(e >= st * self.d_idx,
                                  e < st * self.d_idx + st)))
            if sol.check() == z3.unsat:
                self.stores.append(Store(name, s.lineno, text, 'own-row',
                                         stride=str(st)))
                return
        self.stores.append(Store(name, s.lineno, text, 'foreign-row',
                                 note='no constant stride s with '
                                 's*d_idx <= index < s*d_idx + s'))


def analyze_method(fn, src_of=None, cdef=None):
    an = FrameAnalyzer(fn, src_of)
    if cdef is not None:
        init_relations(cdef, an)
    return an.run()
