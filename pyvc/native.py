"""Run the REAL code of /repo's working tree natively (replay, cross-check).

Pure-Python targets are loaded from their file path under stubbed third-party
imports (compyle's `declare` only carries type information); compiled targets
are run in a /venv/bin/python subprocess (run_venv)."""
import importlib.util
import json
import os
import subprocess
import sys
import types

from .repo import REPO_ROOT

_loaded = {}


def _stub_modules():
    if 'compyle' in sys.modules and hasattr(sys.modules['compyle'],
                                            '_pyvc_stub'):
        return
    try:
        import compyle.api  # noqa
        return
    except Exception:
        pass
    comp = types.ModuleType('compyle')
    comp._pyvc_stub = True
    api = types.ModuleType('compyle.api')

    def declare(t, n=1):
        def one():
            if isinstance(t, str) and t.startswith('matrix'):
                dims = t[t.index('(') + 1:t.rindex(')')].strip('() ')
                parts = [int(x) for x in dims.split(',') if x.strip()]
                if len(parts) == 1:
                    return [0.0] * parts[0]
                return [[0.0] * parts[1] for _ in range(parts[0])]
            return 0
        if n > 1:
            return [one() for _ in range(n)]
        return one()
    api.declare = declare
    comp.api = api
    types_m = types.ModuleType('compyle.types')
    types_m.declare = declare
    sys.modules['compyle'] = comp
    sys.modules['compyle.api'] = api
    sys.modules['compyle.types'] = types_m


def load(modname, root=None):
    """Import a single pure-Python module of the repo by path."""
    root = root or REPO_ROOT
    key = (root, modname)
    if key in _loaded:
        return _loaded[key]
    _stub_modules()
    path = os.path.join(root, *modname.split('.')) + '.py'
    spec = importlib.util.spec_from_file_location(
        'pyvc_native_' + modname.replace('.', '_'), path)
    m = importlib.util.module_from_spec(spec)
    spec.loader.exec_module(m)
    _loaded[key] = m
    return m


def run_venv(script, payload=None, timeout=300, cwd='/'):
    """Run a python snippet under /venv/bin/python (compiled pysph available
    from site-packages); the snippet reads JSON from stdin and must print one
    JSON line last."""
    env = dict(os.environ)
    env.pop('PYTHONPATH', None)
    p = subprocess.run(['/venv/bin/python', '-c', script],
                       input=json.dumps(payload or {}), text=True,
                       capture_output=True, timeout=timeout, cwd=cwd, env=env)
    if p.returncode != 0:
        raise RuntimeError('venv subprocess failed: %s' % p.stderr[-1500:])
    lines = [l for l in p.stdout.strip().split('\n') if l.strip()]
    return json.loads(lines[-1])
