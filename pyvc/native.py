"""Run the REAL code of /repo's working tree natively (replay, cross-check).

Pure-Python targets are loaded from their file path under stubbed third-party
imports (compyle's `declare` only carries type information); compiled targets
are run in a /venv/bin/python subprocess (run_venv)."""
import importlib.util
import json
import os
import subprocess
import sys
import types

from .repo import REPO_ROOT

_loaded = {}


def _stub_modules():
    if 'compyle' in sys.modules and hasattr(sys.modules['compyle'],
                                            '_pyvc_stub'):
        return
    try:
        import compyle.api  # noqa
        return
    except Exception:
        pass
    comp = types.ModuleType('compyle')
    comp._pyvc_stub = True
    api = types.ModuleType('compyle.api')

    def declare(t, n=1):
        def one():
            if isinstance(t, str) and t.startswith('matrix'):
                dims = t[t.index('(') + 1:t.rindex(')')].strip('() ')
                parts = [int(x) for x in dims.split(',') if x.strip()]
                if len(parts) == 1:
                    return [0.0] * parts[0]
                return [[0.0] * parts[1] for _ in range(parts[0])]
            return 0
        if n > 1:
            return [one() for _ in range(n)]
        return one()
    api.declare = declare
    comp.api = api
    types_m = types.ModuleType('compyle.types')
    types_m.declare = declare
    sys.modules['compyle'] = comp
    sys.modules['compyle.api'] = api
    sys.modules['compyle.types'] = types_m


def load(modname, root=None):
    """Import a single pure-Python module of the repo by path."""
    root = root or REPO_ROOT
    key = (root, modname)
    if key in _loaded:
        return _loaded[key]
    _stub_modules()
    path = os.path.join(root, *modname.split('.')) + '.py'
    spec = importlib.util.spec_from_file_location(
        'pyvc_native_' + modname.replace('.', '_'), path)
    m = importlib.util.module_from_spec(spec)
    spec.loader.exec_module(m)
    _loaded[key] = m
    return m


def run_venv(script, payload=None, timeout=300, cwd='/'):
    """Run a python snippet under /venv/bin/python (compiled pysph available
    from site-packages); the snippet reads JSON from stdin and must print one
    JSON line last."""
    env = dict(os.environ)
    env.pop('PYTHONPATH', None)
    p = subprocess.run(['/venv/bin/python', '-c', script],
                       input=json.dumps(payload or {}), text=True,
                       capture_output=True, timeout=timeout, cwd=cwd, env=env)
    if p.returncode != 0:
        raise RuntimeError('venv subprocess failed: %s' % p.stderr[-1500:])
    lines = [l for l in p.stdout.strip().split('\n') if l.strip()]
    return json.loads(lines[-1])


_BUILD_SETUP = """
from setuptools import setup, Extension
from Cython.Build import cythonize
import numpy
setup(ext_modules=cythonize(
    [Extension("%(name)s", ["%(name)s.pyx"],
               include_dirs=[numpy.get_include()])],
    language_level=3))
"""


def run_built_pyx(relpath, script, payload=None, root=None, timeout=600):
    """Build ONE self-contained extension (e.g. pysph/base/linalg3.pyx) from
    the working tree in a temporary directory outside /repo and /verif, run
    `script` (python source; the module is importable under its base name;
    reads JSON on stdin, prints one JSON line last) under /venv/bin/python,
    remove the directory.  Only used on replay paths (takes ~15 s)."""
    import shutil
    import tempfile
    root = root or REPO_ROOT
    name = os.path.basename(relpath)[:-4]
    tmp = tempfile.mkdtemp(prefix='pyvc_build_')
    try:
        src = os.path.join(root, relpath)
        shutil.copy(src, tmp)
        if os.path.exists(src[:-4] + '.pxd'):
            shutil.copy(src[:-4] + '.pxd', tmp)
        with open(os.path.join(tmp, 'setup_tmp.py'), 'w') as f:
            f.write(_BUILD_SETUP % dict(name=name))
        env = dict(os.environ)
        env.pop('PYTHONPATH', None)
        p = subprocess.run(['/venv/bin/python', 'setup_tmp.py', 'build_ext',
                            '--inplace'], cwd=tmp, capture_output=True,
                           text=True, env=env, timeout=timeout)
        if p.returncode != 0:
            raise RuntimeError('build of %s failed: %s' % (
                relpath, (p.stdout + p.stderr)[-800:]))
        return run_venv('import sys; sys.path.insert(0, %r)\n' % tmp +
                        script, payload, timeout=timeout, cwd=tmp)
    finally:
        shutil.rmtree(tmp, ignore_errors=True)


# ---------------------------------------------------------------------------
# one in-place build of the working tree per check run, shared by all tasks
# (process pool) through a lock file; removed by the engine when the run ends
def _tree_digest(root):
    import hashlib
    h = hashlib.sha1()
    for base, dirs, files in os.walk(os.path.join(root, 'pysph')):
        dirs.sort()
        for f in sorted(files):
            if f.endswith(('.pyx', '.pxd', '.h', '.hpp', '.py', '.mako',
                           '.pxi')):
                p = os.path.join(base, f)
                h.update(p[len(root):].encode())
                with open(p, 'rb') as fh:
                    h.update(fh.read())
    return h.hexdigest()[:16]


def shared_build(root=None, timeout=3000):
    """-> (tree or None, message).  The build lives in
    /tmp/pyvc_build_<run>_<digest>/tree (outside /repo and /verif)."""
    import fcntl
    root = root or REPO_ROOT
    run = os.environ.get('PYVC_RUN_ID', str(os.getpid()))
    top = '/tmp/pyvc_build_%s_%s' % (run, _tree_digest(root))
    os.makedirs(top, exist_ok=True)
    tree = os.path.join(top, 'tree')
    with open(os.path.join(top, 'lock'), 'w') as lk:
        fcntl.flock(lk, fcntl.LOCK_EX)
        try:
            done = os.path.join(top, 'done')
            if os.path.exists(done):
                with open(done) as f:
                    msg = f.read()
                return (tree if msg == 'ok' else None), msg
            subprocess.run(['rsync', '-a', '--exclude', '.git', '--exclude',
                            'build', '--exclude', 'docs', root + '/',
                            tree + '/'], check=True)
            env = dict(os.environ)
            env.pop('PYTHONPATH', None)
            p = subprocess.run(['/venv/bin/python', 'setup.py', 'build_ext',
                                '--inplace', '-j', '12'], cwd=tree,
                               capture_output=True, text=True, env=env,
                               timeout=timeout)
            msg = 'ok' if p.returncode == 0 else 'build failed: %s' % (
                p.stdout + p.stderr)[-400:]
            with open(done, 'w') as f:
                f.write(msg)
            return (tree if msg == 'ok' else None), msg
        finally:
            fcntl.flock(lk, fcntl.LOCK_UN)


def cleanup_builds():
    import glob
    import shutil
    run = os.environ.get('PYVC_RUN_ID', str(os.getpid()))
    for d in glob.glob('/tmp/pyvc_build_%s_*' % run):
        shutil.rmtree(d, ignore_errors=True)
