"""Relational (two-run) verification support.

A relational property compares run 1 of a function on inputs x with run 2 on
T(x) (reflection, Galilean shift, scaling, index swap ...).  Proving the final
relation directly gives the solver two large unrelated terms.  Instead run 2
is *aligned* with run 1 while it executes: after every assignment in run 2
the new value v2 is compared with F(c) for every value c run 1 ever assigned
and every candidate form F of the property (e.g. c and -c for reflection).
A numeric fingerprint (evaluation at a few random admissible points) selects
the candidates; a candidate is adopted only after `pc |- v2 == F(c)` has been
PROVED (NF or z3), and then v2 is replaced by the term F(c).  Every rewrite is
therefore a proved lemma; the heuristic only chooses which lemmas to try.
Afterwards both runs share sub-terms and the final obligation is small.
"""
import math
import random
from fractions import Fraction

import z3

from . import sym as S
from . import backends as B
from .symexec import Obligation


class EvalError(Exception):
    pass


def feval(e, env, cache=None):
    """Float evaluation of a z3 term under env: name -> float."""
    cache = cache if cache is not None else {}

    def ev(t):
        k = t.get_id()
        if k in cache:
            return cache[k][1]
        r = _ev(t)
        cache[k] = (t, r)
        return r

    def _ev(t):
        if z3.is_int_value(t):
            return float(t.as_long())
        if z3.is_rational_value(t):
            return t.numerator_as_long() / t.denominator_as_long()
        if z3.is_true(t):
            return True
        if z3.is_false(t):
            return False
        if z3.is_const(t):
            n = str(t)
            if n == 'pi':
                return math.pi
            if n in env:
                return env[n]
            raise EvalError('free symbol %s' % n)
        k = t.decl().kind()
        ch = t.children()
        if k == z3.Z3_OP_ITE:
            return ev(ch[1]) if ev(ch[0]) else ev(ch[2])
        if k == z3.Z3_OP_AND:
            return all(ev(c) for c in ch)
        if k == z3.Z3_OP_OR:
            return any(ev(c) for c in ch)
        a = [ev(c) for c in ch]
        try:
            if k == z3.Z3_OP_ADD:
                return sum(a)
            if k == z3.Z3_OP_MUL:
                r = 1.0
                for x in a:
                    r *= x
                return r
            if k == z3.Z3_OP_SUB:
                r = a[0]
                for x in a[1:]:
                    r -= x
                return r
            if k == z3.Z3_OP_UMINUS:
                return -a[0]
            if k == z3.Z3_OP_DIV:
                return a[0] / a[1]
            if k == z3.Z3_OP_POWER:
                return a[0] ** a[1]
            if k == z3.Z3_OP_TO_REAL:
                return float(a[0])
            if k == z3.Z3_OP_TO_INT:
                return float(math.floor(a[0]))
            if k == z3.Z3_OP_NOT:
                return not a[0]
            if k == z3.Z3_OP_IMPLIES:
                return (not a[0]) or a[1]
            if k == z3.Z3_OP_EQ:
                return a[0] == a[1]
            if k == z3.Z3_OP_DISTINCT:
                return a[0] != a[1]
            if k == z3.Z3_OP_LE:
                return a[0] <= a[1]
            if k == z3.Z3_OP_LT:
                return a[0] < a[1]
            if k == z3.Z3_OP_GE:
                return a[0] >= a[1]
            if k == z3.Z3_OP_GT:
                return a[0] > a[1]
            if k == z3.Z3_OP_UNINTERPRETED:
                n = t.decl().name()
                if n == 'sqrt':
                    return math.sqrt(a[0])
                if n == 'pow':
                    return math.pow(a[0], a[1])
                if n == 'floorf':
                    return float(math.floor(a[0]))
                if hasattr(math, n):
                    return getattr(math, n)(*a)
        except (ZeroDivisionError, ValueError, OverflowError):
            raise EvalError('arith')
        raise EvalError('op %s' % t.decl().name())
    return ev(S.to_z3(e))


class Aligner(object):
    """forms: list of (label, fn) where fn(term) -> z3 term F(term)."""

    def __init__(self, sample_envs, forms, prove_budget_ms=3000,
                 min_size=4):
        self.envs = sample_envs          # list of dict name->float
        self.forms = forms
        self.pool = []                   # (term, label of origin)
        self.index = {}                  # fingerprint -> [(formlabel, term)]
        self.budget = prove_budget_ms
        self.stats = dict(tried=0, adopted=0, lemmas=[])
        self._seen = set()
        self.min_size = min_size

    def fp(self, term):
        out = []
        for k_, env in enumerate(self.envs):
            v = None
            for _ in range(40):
                try:
                    v = feval(term, env)
                    break
                except EvalError as e:
                    msg = str(e)
                    if msg.startswith('free symbol '):
                        # symbols introduced later (loop-head values): give
                        # them a fixed pseudo-random positive value
                        nm = msg[len('free symbol '):]
                        rnd = random.Random('%s/%d' % (nm, k_))
                        env[nm] = rnd.uniform(0.6, 1.7)
                        continue
                    return None
            if v is None:
                return None
            if isinstance(v, bool):
                return None
            if v != v or abs(v) == float('inf'):
                return None
            out.append(float('%.9e' % v))
        return tuple(out)

    def record(self, value, origin=''):
        """A value assigned in run 1."""
        if not S.is_sym(value) or not z3.is_real(value) and \
                not z3.is_int(value):
            return
        value = S.to_real(value)
        k = value.get_id()
        if k in self._seen:
            return
        self._seen.add(k)
        self.pool.append(value)
        for label, fn in self.forms:
            t = fn(value)
            f = self.fp(t)
            if f is not None:
                self.index.setdefault(f, []).append((label, t, value))

    def align(self, value, pc, name=''):
        """A value assigned in run 2: returns a proved-equal aligned term
        (or the value itself)."""
        if not S.is_sym(value) or not (z3.is_real(value) or
                                       z3.is_int(value)):
            return value
        v = S.to_real(value)
        if _size(v, self.min_size + 1) <= self.min_size:
            return value
        f = self.fp(v)
        if f is None:
            return value
        for label, t, c in self.index.get(f, []):
            if t.eq(v):
                return value
            self.stats['tried'] += 1
            ob = Obligation('align', pc, v == t,
                            extra=dict(timeout_ms=self.budget))
            r = B.nf_prove(ob, budget_s=self.budget / 1000.0 * 3)
            if r.verdict != 'proved':
                r = B.z3_prove(ob, self.budget)
            if r.verdict == 'proved':
                self.stats['adopted'] += 1
                if len(self.stats['lemmas']) < 40:
                    self.stats['lemmas'].append('%s: %s' % (name, label))
                return t
        return value


def _size(e, cap):
    n = 0
    todo = [e]
    while todo and n <= cap:
        t = todo.pop()
        n += 1
        todo.extend(t.children())
    return n


def sample_envs(names, pre, n=3, seed=11, ranges=None, extra=None):
    """Random float assignments satisfying the precondition list `pre`."""
    rnd = random.Random(seed)
    envs = []
    tries = 0
    ranges = ranges or {}
    while len(envs) < n and tries < 2000:
        tries += 1
        env = {}
        for nm in names:
            lo, hi = ranges.get(nm, (-3.0, 3.0))
            env[nm] = rnd.uniform(lo, hi)
        if extra:
            env.update(extra(rnd))
        try:
            if all(feval(p, env) for p in pre):
                envs.append(env)
        except EvalError:
            continue
    if len(envs) < n:
        raise S.VCError('could not sample the precondition')
    return envs
