"""Read-only view of /repo's *current working tree*: parsed modules, classes,
functions.  Nothing is cached across runs; every check re-reads the files."""
import ast
import hashlib
import os

REPO_ROOT = os.environ.get('PYVC_REPO', '/repo')


class ModuleInfo(object):
    def __init__(self, name, path, src):
        self.name = name
        self.path = path
        self.src = src
        self.sha = hashlib.sha256(src.encode()).hexdigest()[:16]
        self.tree = ast.parse(src, filename=path)
        self.functions = {}
        self.classes = {}
        self.assigns = {}     # module-level NAME = expr (last one wins)
        self.imports = {}     # local name -> (module, original name or None)
        for node in self.tree.body:
            self._scan(node)

    def _scan(self, node):
        if isinstance(node, ast.FunctionDef):
            self.functions[node.name] = node
        elif isinstance(node, ast.ClassDef):
            self.classes[node.name] = node
        elif isinstance(node, ast.Assign):
            for t in node.targets:
                if isinstance(t, ast.Name):
                    self.assigns[t.id] = node.value
        elif isinstance(node, ast.ImportFrom):
            for a in node.names:
                self.imports[a.asname or a.name] = (
                    self._abs(node.module, node.level), a.name)
        elif isinstance(node, ast.Import):
            for a in node.names:
                self.imports[a.asname or a.name.split('.')[0]] = (
                    a.name if a.asname else a.name.split('.')[0], None)
        elif isinstance(node, (ast.If, ast.Try)):
            for sub in getattr(node, 'body', []):
                self._scan(sub)
            for sub in getattr(node, 'orelse', []):
                self._scan(sub)

    def _abs(self, module, level):
        if not level:
            return module
        parts = self.name.split('.')
        if not self.path.endswith('__init__.py'):
            parts = parts[:-1]
        parts = parts[:len(parts) - (level - 1)]
        return '.'.join(parts + ([module] if module else []))

    def methods(self, clsname):
        return {n.name: n for n in self.classes[clsname].body
                if isinstance(n, ast.FunctionDef)}

    def lines_of(self, node):
        return (node.lineno, getattr(node, 'end_lineno', node.lineno))

    def source_of(self, node):
        return ast.get_source_segment(self.src, node)

    def hash_of(self, node):
        return hashlib.sha256(
            (self.source_of(node) or '').encode()).hexdigest()[:16]


class Repo(object):
    def __init__(self, root=None):
        self.root = root or REPO_ROOT
        self._mods = {}

    def path_of(self, modname):
        base = os.path.join(self.root, *modname.split('.'))
        if os.path.isfile(base + '.py'):
            return base + '.py'
        if os.path.isfile(os.path.join(base, '__init__.py')):
            return os.path.join(base, '__init__.py')
        return None

    def module(self, modname):
        if modname not in self._mods:
            p = self.path_of(modname)
            if p is None:
                raise KeyError(modname)
            with open(p) as f:
                src = f.read()
            self._mods[modname] = ModuleInfo(modname, p, src)
        return self._mods[modname]

    def cython_module(self, relpath):
        """Mechanical extraction of a .pyx/.pxd (see cy2py.py) -> ModuleInfo
        whose .pyx_lines maps qualname -> line in the Cython file and
        .dropped lists what the extraction dropped."""
        key = 'cy:' + relpath
        if key in self._mods:
            return self._mods[key]
        import json
        import subprocess
        import tempfile
        path = os.path.join(self.root, relpath)
        here = os.path.dirname(os.path.abspath(__file__))
        fd, outp = tempfile.mkstemp(suffix='.json', prefix='pyvc_cy_')
        os.close(fd)
        try:
            env = dict(os.environ)
            env.pop('PYTHONPATH', None)
            p = subprocess.run(['/venv/bin/python',
                                os.path.join(here, 'cy2py.py'), outp, path],
                               capture_output=True, text=True, cwd='/',
                               env=env, timeout=300)
            with open(outp) as f:
                d = json.load(f)[path]
        finally:
            os.unlink(outp)
        if 'error' in d:
            raise KeyError('cython extraction of %s failed: %s' % (
                relpath, d['error'][:300]))
        name = relpath.replace('/', '.')
        m = ModuleInfo(name, path, d['text'])
        with open(path) as f:
            m.orig_sha = hashlib.sha256(f.read().encode()).hexdigest()[:16]
        m.pyx_lines = d['lines']
        m.dropped = d['dropped']
        m.is_cython = True
        # machine-integer view (pyvc/cint.py): same text with typed casts,
        # declared C types of arguments / attributes / typedefs
        m.ctypes = d.get('ctypes', {})
        m.cattrs = d.get('cattrs', {})
        m.typedefs = d.get('typedefs', {})
        if d.get('typed_text'):
            mt = ModuleInfo(name, path, d['typed_text'])
            mt.pyx_lines = d['lines']
            mt.dropped = d['dropped']
            mt.is_cython = True
            mt.orig_sha = m.orig_sha
            m.typed = mt
        self._mods[key] = m
        return m

    def cython_from_text(self, key, text, origin_relpath):
        """Mechanical extraction of a Cython fragment given as text (e.g. the
        static methods cut out of a .mako template)."""
        import tempfile
        k = 'cytext:' + key
        if k in self._mods:
            return self._mods[k]
        d = tempfile.mkdtemp(prefix='pyvc_cytext_')
        try:
            rel = os.path.join(d, key + '.pyx')
            with open(rel, 'w') as f:
                f.write(text)
            sub = Repo(d)
            m = sub.cython_module(key + '.pyx')
        finally:
            import shutil
            shutil.rmtree(d, ignore_errors=True)
        m.path = os.path.join(self.root, origin_relpath)
        self._mods[k] = m
        return m

    def has_module(self, modname):
        return modname is not None and self.path_of(modname) is not None

    def resolve_class(self, modname, clsname, _depth=0):
        """-> (ModuleInfo, ClassDef) following imports inside the repo."""
        if _depth > 8 or not self.has_module(modname):
            return None
        m = self.module(modname)
        if clsname in m.classes:
            return m, m.classes[clsname]
        if clsname in m.imports:
            mod2, orig = m.imports[clsname]
            if orig is not None:
                return self.resolve_class(mod2, orig, _depth + 1)
        return None

    def mro(self, modname, clsname):
        """Linearised list of (ModuleInfo, ClassDef); simple left-to-right
        depth-first (no diamond inheritance in the classes we analyse)."""
        r = self.resolve_class(modname, clsname)
        if r is None:
            return []
        m, c = r
        out = [(m, c)]
        for b in c.bases:
            if isinstance(b, ast.Name):
                bn = b.id
                for mc in self.mro(m.name, bn):
                    if all(mc[1] is not x[1] for x in out):
                        out.append(mc)
            elif isinstance(b, ast.Attribute) and isinstance(b.value,
                                                             ast.Name):
                imp = m.imports.get(b.value.id)
                if imp:
                    for mc in self.mro(imp[0], b.attr):
                        if all(mc[1] is not x[1] for x in out):
                            out.append(mc)
        return out

    def find_method(self, modname, clsname, meth):
        for m, c in self.mro(modname, clsname):
            for n in c.body:
                if isinstance(n, ast.FunctionDef) and n.name == meth:
                    return m, c, n
        return None

    def walk_modules(self, package):
        """All module names under a package directory."""
        base = os.path.join(self.root, *package.split('.'))
        out = []
        for dp, dn, fn in os.walk(base):
            dn[:] = [d for d in dn if d not in ('tests', '__pycache__')]
            for f in sorted(fn):
                if f.endswith('.py'):
                    rel = os.path.relpath(os.path.join(dp, f), self.root)
                    mod = rel[:-3].replace(os.sep, '.')
                    if mod.endswith('.__init__'):
                        mod = mod[:-9]
                    out.append(mod)
        return sorted(out)
