"""Value domain of the symbolic executor.

A value is either a *concrete* Python value (int, Fraction standing for a
float read as a real, bool, str, None, tuple, list, dict, SymObject) or a z3
expression (Int, Real, Bool sort).  Arithmetic helpers dispatch on that.

Encoding assumptions (copied into every evidence file by evidence.py):
  * float is R; decimal literals are exact rationals; math.pi is the real pi
  * Python / C ints are Z
  * sqrt, exp, pow, sin, cos, ... are uninterpreted, axioms are instantiated
    per occurrence by the back end (backends.py)
"""
import z3
from fractions import Fraction

Z = z3

# ---------------------------------------------------------------- uninterpreted
R = z3.RealSort()
I = z3.IntSort()
UF = {
    'sqrt': z3.Function('sqrt', R, R),
    'exp': z3.Function('exp', R, R),
    'log': z3.Function('log', R, R),
    'sin': z3.Function('sin', R, R),
    'cos': z3.Function('cos', R, R),
    'tan': z3.Function('tan', R, R),
    'acos': z3.Function('acos', R, R),
    'atan': z3.Function('atan', R, R),
    'atan2': z3.Function('atan2', R, R, R),
    'pow': z3.Function('pow', R, R, R),
    'floor': z3.Function('floorf', R, R),
    'tanh': z3.Function('tanh', R, R),
    'erf': z3.Function('erf', R, R),
}
UF_BY_NAME = {f.name(): f for f in UF.values()}
PI = z3.Real('pi')


class VCError(Exception):
    """Construct outside the accepted subset (never a violation)."""


def is_sym(v):
    return isinstance(v, z3.ExprRef)


def is_num(v):
    return (isinstance(v, (int, Fraction)) and not isinstance(v, bool)) or \
        (is_sym(v) and (z3.is_int(v) or z3.is_real(v)))


def is_conc_num(v):
    return isinstance(v, (int, Fraction)) and not isinstance(v, bool)


def lit_float(x):
    """A Python float literal read as the exact decimal it was written as."""
    if isinstance(x, float):
        if x != x or x in (float('inf'), float('-inf')):
            raise VCError('non-finite float literal')
        return Fraction(repr(x))
    return x


def to_z3(v):
    if is_sym(v):
        return v
    if isinstance(v, bool):
        return z3.BoolVal(v)
    if isinstance(v, int):
        return z3.IntVal(v)
    if isinstance(v, Fraction):
        return z3.RealVal(v)
    if isinstance(v, float):
        return z3.RealVal(lit_float(v))
    raise VCError('cannot lift %r to z3' % (v,))


def to_real(v):
    v = to_z3(v)
    if z3.is_int(v):
        if z3.is_int_value(v):
            return z3.RealVal(v.as_long())
        return z3.ToReal(v)
    if z3.is_bool(v):
        return z3.If(v, z3.RealVal(1), z3.RealVal(0))
    return v


def to_bool(v):
    """Python truthiness."""
    if is_sym(v):
        if z3.is_bool(v):
            return v
        if z3.is_int(v):
            return v != 0
        if z3.is_real(v):
            return v != 0
        raise VCError('truthiness of %s' % v.sort())
    if isinstance(v, (list, tuple, dict, str, set, frozenset)):
        return len(v) != 0
    if v is None:
        return False
    if isinstance(v, (bool, int, Fraction)):
        return bool(v)
    return True


def _coerce2(a, b):
    a, b = to_z3(a), to_z3(b)
    if z3.is_bool(a):
        a = z3.If(a, z3.IntVal(1), z3.IntVal(0))
    if z3.is_bool(b):
        b = z3.If(b, z3.IntVal(1), z3.IntVal(0))
    if z3.is_int(a) and z3.is_int(b):
        return a, b, True
    return to_real(a), to_real(b), False


def simp(e):
    if is_sym(e):
        if z3.is_int_value(e):
            return e.as_long()
        if z3.is_rational_value(e):
            return Fraction(e.numerator_as_long(), e.denominator_as_long())
        if z3.is_true(e):
            return True
        if z3.is_false(e):
            return False
    return e


def add(a, b):
    if not is_sym(a) and not is_sym(b):
        try:
            return a + b
        except TypeError as e:
            # the real code would raise here too; for the verifier this is
            # a state outside the modelled subset, not a crash
            raise VCError('unsupported operands for +: %s' % e)
    if isinstance(a, (list, tuple)) or isinstance(b, (list, tuple)):
        raise VCError('sequence + symbolic')
    if is_conc_num(a) and a == 0 and not isinstance(a, Fraction):
        return b
    if is_conc_num(b) and b == 0 and not isinstance(b, Fraction):
        return a
    x, y, _ = _coerce2(a, b)
    return x + y


def sub(a, b):
    if not is_sym(a) and not is_sym(b):
        return a - b
    x, y, _ = _coerce2(a, b)
    return x - y


def mul(a, b):
    a, b = xr_finite(a), xr_finite(b)
    if not is_sym(a) and not is_sym(b):
        return a * b
    if isinstance(a, list) or isinstance(b, list):
        raise VCError('list * symbolic')
    if is_conc_num(a) and a == 0:
        return a
    if is_conc_num(b) and b == 0:
        return b
    if is_conc_num(a) and a == 1 and isinstance(a, int):
        return b
    if is_conc_num(b) and b == 1 and isinstance(b, int):
        return a
    x, y, _ = _coerce2(a, b)
    return x * y


def neg(a):
    if not is_sym(a):
        return -a
    return -a


def div(a, b):
    """Python true division -> real.  Definedness is the caller's business."""
    a, b = xr_finite(a), xr_finite(b)
    if not is_sym(a) and not is_sym(b):
        if b == 0:
            raise ZeroDivisionError
        return Fraction(a) / Fraction(b)
    if is_conc_num(b):
        if b == 0:
            raise ZeroDivisionError
        return to_real(a) * z3.RealVal(Fraction(1) / Fraction(b)) \
            if b != 1 else to_real(a)
    if is_conc_num(a) and a == 0:
        return Fraction(0)
    return to_real(a) / to_real(b)


def floordiv(a, b):
    if not is_sym(a) and not is_sym(b):
        return a // b
    x, y, isint = _coerce2(a, b)
    if not isint:
        raise VCError('// on reals')
    # z3 div is Euclidean: equals floor division for positive divisor
    return x / y


def mod(a, b):
    if not is_sym(a) and not is_sym(b):
        return a % b
    x, y, isint = _coerce2(a, b)
    if not isint:
        raise VCError('% on reals')
    return x % y


def power(a, b):
    if not is_sym(a) and not is_sym(b):
        if isinstance(b, int):
            return a ** b
        if isinstance(b, Fraction) and b.denominator == 1:
            return Fraction(a) ** int(b)
    if is_conc_num(b):
        bb = Fraction(b)
        if bb.denominator == 1 and abs(bb) <= 16:
            n = int(bb)
            if n == 0:
                return 1 if isinstance(b, int) else Fraction(1)
            r = a
            for _ in range(abs(n) - 1):
                r = mul(r, a)
            if isinstance(b, Fraction) and not is_sym(r):
                r = Fraction(r)
            if n < 0:
                return div(1, r)
            return r if not isinstance(b, Fraction) or is_sym(r) \
                else Fraction(r)
        if bb == Fraction(1, 2):
            return UF['sqrt'](to_real(a))
    return UF['pow'](to_real(a), to_real(b))


def cmp(op, a, b):
    if isinstance(a, XR) or isinstance(b, XR):
        return xr_cmp(op, a, b)
    if not is_sym(a) and not is_sym(b):
        if op == '==':
            return a == b
        if op == '!=':
            return a != b
        if op == '<':
            return a < b
        if op == '<=':
            return a <= b
        if op == '>':
            return a > b
        if op == '>=':
            return a >= b
    if (a is None) or (b is None) or isinstance(a, str) or isinstance(b, str):
        # symbolic vs None/str: never equal
        if op == '==':
            return False
        if op == '!=':
            return True
        raise VCError('ordering with None/str')
    za, zb = to_z3(a), to_z3(b)
    if z3.is_bool(za) and z3.is_bool(zb):
        if op == '==':
            return za == zb
        if op == '!=':
            return za != zb
    x, y, _ = _coerce2(za, zb)
    if op == '==':
        return x == y
    if op == '!=':
        return x != y
    if op == '<':
        return x < y
    if op == '<=':
        return x <= y
    if op == '>':
        return x > y
    if op == '>=':
        return x >= y
    raise VCError(op)


def b_not(a):
    a = to_bool(a)
    if is_sym(a):
        return z3.Not(a)
    return not a


def b_and(*xs):
    out = []
    for x in xs:
        x = to_bool(x)
        if is_sym(x):
            out.append(x)
        elif not x:
            return False
    if not out:
        return True
    return out[0] if len(out) == 1 else z3.And(*out)


def b_or(*xs):
    out = []
    for x in xs:
        x = to_bool(x)
        if is_sym(x):
            out.append(x)
        elif x:
            return True
    if not out:
        return False
    return out[0] if len(out) == 1 else z3.Or(*out)


def implies(a, b):
    return b_or(b_not(a), b)


def ite(c, a, b):
    if isinstance(a, XR) or isinstance(b, XR):
        return xr_ite(c, a, b)
    if not is_sym(c):
        return a if c else b
    if not is_sym(a) and not is_sym(b) and type(a) == type(b) and a == b:
        return a
    if is_sym(a) and is_sym(b) and a.eq(b):
        return a
    za, zb = to_z3(a), to_z3(b)
    if z3.is_bool(za) and z3.is_bool(zb):
        return z3.If(c, za, zb)
    x, y, _ = _coerce2(za, zb)
    return z3.If(c, x, y)


def absval(a):
    if not is_sym(a):
        return abs(a)
    return z3.If(a >= 0, a, -a)


def minval(a, b):
    if isinstance(a, XR) or isinstance(b, XR):
        return xr_min(a, b)
    if not is_sym(a) and not is_sym(b):
        return min(a, b)
    x, y, _ = _coerce2(a, b)
    # Python: min(a, b) returns a unless b < a
    return z3.If(y < x, y, x)


def maxval(a, b):
    if not is_sym(a) and not is_sym(b):
        return max(a, b)
    x, y, _ = _coerce2(a, b)
    return z3.If(y > x, y, x)


def same(a, b):
    """Structural identity of two values (used when merging states)."""
    if isinstance(a, XR) and isinstance(b, XR):
        return same(a.inf, b.inf) and same(a.val, b.val)
    if is_sym(a) and is_sym(b):
        return a.eq(b)
    if is_sym(a) or is_sym(b):
        return False
    if type(a) != type(b):
        return False
    if isinstance(a, (list, tuple)):
        return len(a) == len(b) and all(same(x, y) for x, y in zip(a, b))
    try:
        return a == b
    except Exception:
        return a is b


class SymObject(object):
    """An object with attributes (self of the method under analysis, etc.)."""

    def __init__(self, cls=None, attrs=None, name='obj'):
        self.cls = cls          # class name (str) used for method lookup
        self.attrs = dict(attrs or {})
        self.name = name

    def __repr__(self):
        return '<SymObject %s %s>' % (self.cls, self.name)


class Opaque(object):
    """A value the executor knows nothing about (only passed around)."""

    def __init__(self, name):
        self.name = name

    def __repr__(self):
        return '<Opaque %s>' % self.name


_fresh_counter = [0]


def fresh(prefix, sort='real'):
    _fresh_counter[0] += 1
    n = '%s!%d' % (prefix, _fresh_counter[0])
    if sort == 'real':
        return z3.Real(n)
    if sort == 'int':
        return z3.Int(n)
    if sort == 'bool':
        return z3.Bool(n)
    raise VCError(sort)


# ------------------------------------------------------------ extended reals
class XR(object):
    """An extended real: +infinity or a finite real.  `inf` is a bool / z3
    Bool, `val` the finite value (meaningful when not inf).  Supports what
    code does with np.inf used as 'no constraint': min, comparisons, isinf,
    assignment, merging.  Arithmetic on an XR needs it to be known finite."""

    def __init__(self, inf, val):
        self.inf = inf
        self.val = val

    def __repr__(self):
        return 'XR(inf=%s, val=%s)' % (self.inf, self.val)


INF = XR(True, Fraction(0))


def xr(v):
    return v if isinstance(v, XR) else XR(False, v)


def xr_min(a, b):
    a, b = xr(a), xr(b)
    # Python: min(a, b) returns a unless b < a
    lt = xr_cmp('<', b, a)
    return xr_ite(lt, b, a)


def xr_ite(c, a, b):
    a, b = xr(a), xr(b)
    if not is_sym(c):
        return a if c else b
    inf = ite(c, a.inf, b.inf)
    val = ite(c, a.val, b.val)
    return XR(inf, val)


def xr_cmp(op, a, b):
    a, b = xr(a), xr(b)
    fin = cmp(op, a.val, b.val)
    if op == '<':
        return b_and(b_not(a.inf), b_or(b.inf, fin))
    if op == '<=':
        return b_or(b.inf, b_and(b_not(a.inf), fin))
    if op == '>':
        return xr_cmp('<', b, a)
    if op == '>=':
        return xr_cmp('<=', b, a)
    if op == '==':
        return b_or(b_and(a.inf, b.inf),
                    b_and(b_not(a.inf), b_not(b.inf), fin))
    if op == '!=':
        return b_not(xr_cmp('==', a, b))
    raise VCError(op)


def xr_finite(a, what='value'):
    """The finite value of an XR known (concretely) to be finite."""
    if isinstance(a, XR):
        if a.inf is False:
            return a.val
        raise VCError('arithmetic on a possibly infinite %s' % what)
    return a
