"""Symbolic execution of the Python subset over the real AST of /repo.

exec_function() enumerates paths through a function body and returns
Outcomes (path condition + final state + return value / raised exception).
Branches that only assign can be ite-merged (merge=True); loops with a
concrete trip count are unrolled; other loops need a LoopSpec (inductive
invariant) and are cut there.  Calls go to (in this order) an external handler,
a callee contract (modular: pre asserted, post assumed), or are inlined when
the contract file lists them as `inline`.

Anything outside the subset raises VCError: the function is then reported as
"outside subset / not verified", never as a violation.
"""
import ast
import z3
from fractions import Fraction

from . import sym as S
from .sym import VCError, SymObject, Opaque, is_sym


class Obligation(object):
    def __init__(self, name, hyps, goal, where='', kind='post', extra=None):
        self.name = name
        self.hyps = list(hyps)
        self.goal = goal
        self.where = where
        self.kind = kind
        self.extra = extra or {}

    def __repr__(self):
        return '<Obligation %s @%s>' % (self.name, self.where)


class SymArray(object):
    """A C/numpy array of unknown length: z3 array Int->elem plus length."""

    def __init__(self, name, arr=None, length=None, elem='real'):
        self.name = name
        self.elem = elem
        srt = z3.RealSort() if elem == 'real' else z3.IntSort()
        self.arr = arr if arr is not None else z3.Array(name, z3.IntSort(),
                                                        srt)
        self.length = length if length is not None else z3.Int(name + '_len')

    def clone(self):
        return SymArray(self.name, self.arr, self.length, self.elem)


class State(object):
    def __init__(self, env=None, pc=None, trace=None, frames=None):
        self.env = env if env is not None else {}
        self.pc = pc if pc is not None else []
        self.trace = trace if trace is not None else []
        # environments of the callers of a function inlined at statement
        # level: cloned together with env so that aliasing is preserved
        self.frames = frames if frames is not None else []

    def clone(self):
        memo = {}
        env = {k: _clone(v, memo) for k, v in self.env.items()}
        frames = [{k: _clone(v, memo) for k, v in f.items()}
                  for f in self.frames]
        return State(env, list(self.pc), list(self.trace), frames)


def _clone(v, memo):
    if isinstance(v, list):
        if id(v) in memo:
            return memo[id(v)]
        n = []
        memo[id(v)] = n
        n.extend(_clone(x, memo) for x in v)
        return n
    if isinstance(v, dict):
        if id(v) in memo:
            return memo[id(v)]
        try:
            n = v.__class__()       # keep dict subclasses (defaultdict ...)
        except Exception:
            n = {}
        memo[id(v)] = n
        for k, x in v.items():
            n[k] = _clone(x, memo)
        return n
    if isinstance(v, SymObject):
        if id(v) in memo:
            return memo[id(v)]
        n = SymObject(v.cls, None, v.name)
        n.module = getattr(v, 'module', None)
        if hasattr(v, 'mro'):
            n.mro = v.mro
        if hasattr(v, 'lazy_factory'):
            n.lazy_factory = v.lazy_factory
        memo[id(v)] = n
        n.attrs = {k: _clone(x, memo) for k, x in v.attrs.items()}
        return n
    if isinstance(v, SymArray):
        if id(v) in memo:
            return memo[id(v)]
        n = v.clone()
        memo[id(v)] = n
        return n
    if isinstance(v, tuple):
        return tuple(_clone(x, memo) for x in v)
    if hasattr(v, 'vc_clone'):
        if id(v) in memo:
            return memo[id(v)]
        n = v.vc_clone(memo, _clone)
        memo[id(v)] = n
        return n
    return v


class Raised(object):
    def __init__(self, exc_type, args=()):
        self.exc_type = exc_type
        self.args = args

    def __repr__(self):
        return 'Raised(%s)' % self.exc_type


class Outcome(object):
    def __init__(self, state, kind, value=None):
        self.state = state
        self.kind = kind        # 'return' | 'raise'
        self.value = value

    @property
    def pc(self):
        return self.state.pc


class LoopSpec(object):
    def __init__(self, inv=(), variant=None, extra_havoc=(), assume=(),
                 havoc_map=None, index=None):
        self.index = index
        self.inv = list(inv)          # expression strings (named: (name, str))
        self.variant = variant
        self.extra_havoc = list(extra_havoc)
        self.assume = list(assume)
        # relational proofs: values to use for the arbitrary iteration
        # instead of fresh symbols (run 2 = image of run 1's symbols)
        self.havoc_map = havoc_map or {}
        self.log = dict(entry=None, head=None, ends=[], exits=[])
        self.logs = []      # one log per execution of the loop statement
        # called on every exit state (contracts use it to install the
        # abstract value a loop leaves in a ghost/stub object)
        self.exit_hook = None


class CalleeContract(object):
    """Modular contract of a callee: callable(ex, state, args, kwargs, node)
    -> value; it must emit the pre obligations itself via ex.oblige()."""

    def __init__(self, fn, name='', bind=False):
        self.fn = fn
        self.name = name
        self.bind = bind


_UNBOUND = object()

MATH_FUNCS = {'sqrt', 'exp', 'log', 'sin', 'cos', 'tan', 'acos', 'atan',
              'atan2', 'pow', 'fabs', 'floor', 'ceil', 'tanh', 'erf'}


class Executor(object):
    def __init__(self, repo, module, qualname='', definedness='obligation',
                 merge=False, loop_specs=None, contracts=None, inline=(),
                 externals=None, max_paths=4096, prune=True, unroll_limit=64,
                 spec_env=None, prune_timeout=300):
        self.repo = repo
        self.module = module              # ModuleInfo
        self.qualname = qualname
        self.definedness = definedness    # 'obligation' | 'assume' | 'ignore'
        self.merge = merge
        self.loop_specs = loop_specs or {}
        self.contracts = contracts or {}
        self.inline = set(inline)
        self.externals = externals or {}
        self.max_paths = max_paths
        self.prune = prune
        self.prune_timeout = prune_timeout
        self.unroll_limit = unroll_limit
        self.obligations = []
        self.dropped = set()              # constructs dropped (evidence)
        self.spec_env = spec_env or {}
        self._loop_ordinal = {}
        self._guard = []                  # short-circuit guards
        self._modconst_cache = {}
        self._fn_stack = []
        self._fn_nodes = []
        self.iter_hook = None
        self.n_paths = 0
        self._solver = None
        self.on_assign = None

    # ------------------------------------------------------------ utilities
    def oblige(self, name, state, goal, where='', kind='side', extra=None):
        goal = S.to_bool(goal) if not isinstance(goal, bool) else goal
        if goal is True:
            self.obligations.append(Obligation(name, state.pc + self._guard,
                                               z3.BoolVal(True), where, kind,
                                               extra))
            return
        self.obligations.append(Obligation(
            name, state.pc + self._guard, S.to_z3(goal), where, kind, extra))

    def feasible(self, pc):
        if not self.prune:
            return True
        if self._solver is None:
            self._solver = z3.Solver()
            self._solver.set('timeout', self.prune_timeout)
        s = self._solver
        s.push()
        try:
            for c in pc:
                s.add(c)
            r = s.check()
        finally:
            s.pop()
        return r != z3.unsat

    def where(self, node):
        return '%s:%s' % (self.module.path.replace(self.repo.root + '/', ''),
                          getattr(node, 'lineno', '?'))

    # ------------------------------------------------------------- function
    def exec_function(self, fn, args, state=None, self_obj=None):
        """args: dict name -> value (missing ones take their defaults)."""
        st = state.clone() if state is not None else State()
        env = {}
        a = fn.args
        params = [p.arg for p in a.args]
        defaults = dict(zip(params[len(params) - len(a.defaults):],
                            a.defaults))
        for p in params:
            if p in args:
                env[p] = args[p]
            elif p == 'self' and self_obj is not None:
                env[p] = self_obj
            elif p in defaults:
                env[p] = self.eval_default(defaults[p], p)
            else:
                raise VCError('missing argument %s of %s' % (p, fn.name))
        for p in a.kwonlyargs:
            if p.arg in args:
                env[p.arg] = args[p.arg]
        if a.kwarg is not None:
            env[a.kwarg.arg] = args.get(a.kwarg.arg, {})
        if a.vararg is not None:
            env[a.vararg.arg] = args.get(a.vararg.arg, [])
        st.env = env
        self._fn_stack.append(fn.name)
        self._fn_nodes.append(fn)
        try:
            outs = []
            for s2, sig in self.exec_block(fn.body, st):
                if sig is None:
                    outs.append(Outcome(s2, 'return', None))
                elif sig[0] == 'return':
                    outs.append(Outcome(s2, 'return', sig[1]))
                elif sig[0] == 'raise':
                    outs.append(Outcome(s2, 'raise', sig[1]))
                else:
                    raise VCError('break/continue outside loop')
            return outs
        finally:
            self._fn_stack.pop()
            self._fn_nodes.pop()

    def eval_default(self, node, name):
        st = State()
        return self.eval(node, st)

    # ----------------------------------------------------------- statements
    def exec_block(self, stmts, state):
        """-> list of (state, signal); signal None | ('return',v) |
        ('raise',Raised) | ('break',) | ('continue',)"""
        cur = [(state, None)]
        for stmt in stmts:
            nxt = []
            for st, sig in cur:
                if sig is not None:
                    nxt.append((st, sig))
                    continue
                nxt.extend(self.exec_stmt(stmt, st))
            cur = nxt
            if len(cur) > self.max_paths:
                raise VCError('path explosion (> %d)' % self.max_paths)
        return cur

    def exec_stmt(self, node, st):
        m = getattr(self, 'stmt_' + type(node).__name__, None)
        if m is None:
            raise VCError('statement %s at %s' % (type(node).__name__,
                                                  self.where(node)))
        try:
            return m(node, st)
        except _DeadPath:
            return []
        except _RaiseSignal as rs:
            return [(st, ('raise', rs.raised))]

    def stmt_Pass(self, node, st):
        return [(st, None)]

    def stmt_FunctionDef(self, node, st):
        # a nested helper: free variables are looked up in the defining
        # environment (read-only capture)
        st.env[node.name] = _LocalFunc(self.module, node, st.env)
        return [(st, None)]

    def stmt_Global(self, node, st):
        return [(st, None)]

    def stmt_Import(self, node, st):
        for a in node.names:
            st.env[a.asname or a.name.split('.')[0]] = Opaque(
                'module:' + a.name)
        return [(st, None)]

    def stmt_ImportFrom(self, node, st):
        for a in node.names:
            st.env[a.asname or a.name] = Opaque(
                'import:%s.%s' % (node.module, a.name))
        return [(st, None)]

    def stmt_Expr(self, node, st):
        if isinstance(node.value, ast.Constant):
            self.dropped.add('docstring')
            return [(st, None)]
        return [(s2, ('raise', v.raised) if isinstance(v, _RaisedVal)
                 else None)
                for s2, v in self.eval_forking(node.value, st)]

    def stmt_Assign(self, node, st):
        out = []
        for s2, v in self.eval_forking(node.value, st):
            if isinstance(v, _RaisedVal):
                out.append((s2, ('raise', v.raised)))
                continue
            for t in node.targets:
                self.assign(t, v, s2)
            out.append((s2, None))
        return out

    def stmt_AnnAssign(self, node, st):
        if node.value is None:
            return [(st, None)]
        out = []
        for s2, v in self.eval_forking(node.value, st):
            self.assign(node.target, v, s2)
            out.append((s2, None))
        return out

    def stmt_AugAssign(self, node, st):
        out = []
        load = _as_load(node.target)
        for s2, rhs in self.eval_forking(node.value, st):
            cur = self.eval(load, s2)
            # mutable containers are updated IN PLACE by Python (s -= t,
            # l += m, d |= e): every alias of the object sees the change
            opn = type(node.op).__name__
            if hasattr(cur, 'vc_iop'):
                cur.vc_iop(opn, rhs, self, s2, node)
                out.append((s2, None))
                continue
            if isinstance(cur, set) and opn in ('Sub', 'BitOr', 'BitAnd',
                                                'BitXor'):
                v = self.binop(node.op, set(cur), rhs, s2, node)
                if not isinstance(v, (set, frozenset)):
                    raise VCError('in-place set operator with a symbolic '
                                  'operand at %s' % self.where(node))
                cur.clear()
                cur.update(v)
                out.append((s2, None))
                continue
            if isinstance(cur, list) and opn == 'Add':
                if not isinstance(rhs, (list, tuple)):
                    raise VCError('list += non-sequence at %s' %
                                  self.where(node))
                cur.extend(rhs)
                out.append((s2, None))
                continue
            if isinstance(cur, dict) and opn == 'BitOr' and \
                    isinstance(rhs, dict):
                cur.update(rhs)
                out.append((s2, None))
                continue
            v = self.binop(node.op, cur, rhs, s2, node)
            self.assign(node.target, v, s2)
            out.append((s2, None))
        return out

    def stmt_Return(self, node, st):
        if node.value is None:
            return [(st, ('return', None))]
        return [(s2, ('raise', v.raised) if isinstance(v, _RaisedVal)
                 else ('return', v))
                for s2, v in self.eval_forking(node.value, st)]

    def stmt_Raise(self, node, st):
        name, args = 'Exception', ()
        e = node.exc
        if isinstance(e, ast.Call):
            name = _dotted(e.func)
            try:
                args = tuple(self.eval(a, st) for a in e.args)
            except VCError:
                args = ()
        elif e is not None:
            name = _dotted(e)
        return [(st, ('raise', Raised(name, args)))]

    def stmt_Try(self, node, st):
        """try/except/else/finally: an exception raised by a `raise`
        statement (or a modelled callee) in the body is matched against the
        handlers by class name; a bare `except:` / `except Exception`
        catches everything.  Exceptions Python itself would raise inside an
        expression (TypeError of len(3) ...) are NOT modelled: the body is
        assumed not to raise them (stated in `dropped`)."""
        self.dropped.add('implicit exceptions inside try bodies')
        out = []
        for s1, sig in self.exec_block(node.body, st):
            if sig is not None and sig[0] == 'raise':
                handled = False
                for h in node.handlers:
                    names = []
                    if h.type is None:
                        names = None
                    elif isinstance(h.type, ast.Tuple):
                        names = [_dotted(x) for x in h.type.elts]
                    else:
                        names = [_dotted(h.type)]
                    if names is None or 'Exception' in names or \
                            'BaseException' in names or \
                            sig[1].exc_type in names:
                        if h.name:
                            s1.env[h.name] = sig[1]
                        out.extend(self.exec_block(h.body, s1))
                        handled = True
                        break
                if not handled:
                    out.append((s1, sig))
            elif sig is None:
                out.extend(self.exec_block(node.orelse, s1))
            else:
                out.append((s1, sig))
        if node.finalbody:
            res = []
            for s1, sig in out:
                for s2, sig2 in self.exec_block(node.finalbody, s1):
                    res.append((s2, sig2 if sig2 is not None else sig))
            out = res
        return out

    def stmt_Assert(self, node, st):
        c = self.eval(node.test, st)
        self.oblige('assert@%s' % node.lineno, st, c, self.where(node),
                    'assert')
        c = S.to_bool(c)
        if c is False:
            return []
        if is_sym(c):
            st.pc.append(c)
        return [(st, None)]

    def stmt_Break(self, node, st):
        return [(st, ('break',))]

    def stmt_Continue(self, node, st):
        return [(st, ('continue',))]

    def stmt_With(self, node, st):
        self.dropped.add('with-context (transparent)')
        return self.exec_block(node.body, st)

    def stmt_If(self, node, st):
        out = []
        for s1, c in self.eval_forking(node.test, st):
            c = S.simp(self.truthy(c, s1, node))
            if c is True or c is False:
                out.extend(self.exec_block(node.body if c else node.orelse,
                                           s1))
                continue
            res_t, res_f = [], []
            st_t = s1.clone()
            st_t.pc.append(c)
            feas_t = self.feasible(st_t.pc)
            st_f = s1
            npc0 = len(s1.pc)
            st_f.pc.append(z3.Not(c))
            feas_f = self.feasible(st_f.pc)
            if feas_t:
                res_t = self.exec_block(node.body, st_t)
            if feas_f:
                res_f = self.exec_block(node.orelse, st_f)
            if (self.merge and len(res_t) == 1 and len(res_f) == 1 and
                    res_t[0][1] is None and res_f[0][1] is None):
                mstate = self.merge_states(c, res_t[0][0], res_f[0][0], npc0)
                if mstate is not None:
                    out.append((mstate, None))
                    continue
            out.extend(res_t)
            out.extend(res_f)
        return out

    def merge_states(self, c, a, b, npc0):
        env = {}
        memo = {}
        try:
            for k in set(a.env) | set(b.env):
                va = a.env.get(k, _UNBOUND)
                vb = b.env.get(k, _UNBOUND)
                if va is _UNBOUND or vb is _UNBOUND:
                    # bound on one side only: poison
                    env[k] = _Poison(k)
                    continue
                env[k] = self._merge_val(c, va, vb, memo)
        except _NoMerge:
            return None
        if a.trace != b.trace:
            if len(a.trace) != len(b.trace):
                return None
            return None
        pc = a.pc[:npc0]
        for x in a.pc[npc0 + 1:]:
            pc.append(z3.Implies(c, x))
        for x in b.pc[npc0 + 1:]:
            pc.append(z3.Implies(z3.Not(c), x))
        # caller frames (statement-level inlined calls): merged with the same
        # memo so that objects shared with the callee stay shared
        frames = []
        if len(a.frames) != len(b.frames):
            return None
        try:
            for fa, fb in zip(a.frames, b.frames):
                f = {}
                for k in set(fa) | set(fb):
                    va, vb = fa.get(k, _UNBOUND), fb.get(k, _UNBOUND)
                    if va is _UNBOUND or vb is _UNBOUND:
                        f[k] = _Poison(k)
                    else:
                        f[k] = self._merge_val(c, va, vb, memo)
                frames.append(f)
        except _NoMerge:
            return None
        return State(env, pc, list(a.trace), frames)

    def _merge_val(self, c, va, vb, memo):
        if va is vb:
            return va
        key = (id(va), id(vb))
        if key in memo:
            return memo[key]
        if isinstance(va, _Poison) or isinstance(vb, _Poison):
            return va if isinstance(va, _Poison) else vb
        if isinstance(va, list) and isinstance(vb, list):
            if len(va) != len(vb):
                raise _NoMerge()
            n = []
            memo[key] = n
            n.extend(self._merge_val(c, x, y, memo) for x, y in zip(va, vb))
            return n
        if isinstance(va, tuple) and isinstance(vb, tuple) and \
                len(va) == len(vb):
            return tuple(self._merge_val(c, x, y, memo)
                         for x, y in zip(va, vb))
        if isinstance(va, SymObject) and isinstance(vb, SymObject):
            if va.cls != vb.cls:
                raise _NoMerge()
            lazy = getattr(self, 'lazy_attrs', False)
            if set(va.attrs) != set(vb.attrs) and not lazy:
                raise _NoMerge()
            n = SymObject(va.cls, None, va.name)
            n.module = getattr(va, 'module', None)
            if hasattr(va, 'mro'):
                n.mro = va.mro
            memo[key] = n
            n.attrs = {}
            for k in set(va.attrs) | set(vb.attrs):
                if k in va.attrs and k in vb.attrs:
                    n.attrs[k] = self._merge_val(c, va.attrs[k], vb.attrs[k],
                                                 memo)
                else:
                    # lazily created attribute: a fixed symbol named after
                    # the attribute, identical on every path
                    n.attrs[k] = va.attrs.get(k, vb.attrs.get(k))
            return n
        if isinstance(va, SymArray) and isinstance(vb, SymArray):
            n = SymArray(va.name, z3.If(c, va.arr, vb.arr) if not
                         va.arr.eq(vb.arr) else va.arr,
                         S.to_z3(S.ite(c, va.length, vb.length)), va.elem)
            memo[key] = n
            return n
        if S.same(va, vb):
            return va
        if isinstance(va, S.XR) or isinstance(vb, S.XR):
            if (isinstance(va, S.XR) or S.is_num(va)) and \
                    (isinstance(vb, S.XR) or S.is_num(vb)):
                return S.xr_ite(c, va, vb)
            raise _NoMerge()
        if va is None or vb is None:
            # Optional numeric: keep as a tagged pair
            raise _NoMerge()
        if S.is_num(va) and S.is_num(vb):
            return S.ite(c, va, vb)
        if isinstance(va, bool) or isinstance(vb, bool) or \
                (is_sym(va) and z3.is_bool(va)):
            try:
                return S.ite(c, va, vb)
            except Exception:
                raise _NoMerge()
        raise _NoMerge()

    # ---- loops
    def _next_ordinal(self):
        fn = self._fn_stack[-1] if self._fn_stack else ''
        k = self._loop_ordinal.get(fn, 0)
        self._loop_ordinal[fn] = k + 1
        return fn, k

    def stmt_While(self, node, st):
        fn, k = self._loop_key(node)
        spec = self.loop_specs.get((fn, k))
        if spec is not None:
            return self.cut_loop(node, st, spec, None)
        # try concrete unrolling
        out = []
        work = [(st, 0)]
        while work:
            s1, n = work.pop()
            if n > self.unroll_limit:
                raise VCError('while loop at %s needs an invariant' %
                              self.where(node))
            for s2, c in self.eval_forking(node.test, s1):
                c = S.simp(self.truthy(c, s2, node))
                branches = []
                if c is True:
                    branches = [(s2, True)]
                elif c is False:
                    branches = [(s2, False)]
                else:
                    raise VCError('while loop with symbolic guard at %s '
                                  'needs an invariant (%s#%d)' %
                                  (self.where(node), fn, k))
                for s3, go in branches:
                    if not go:
                        out.extend(self.exec_block(node.orelse, s3))
                        continue
                    for s4, sig in self.exec_block(node.body, s3):
                        if sig is None or sig[0] == 'continue':
                            work.append((s4, n + 1))
                        elif sig[0] == 'break':
                            out.append((s4, None))
                        else:
                            out.append((s4, sig))
        return out

    def _loop_key(self, node):
        """(function name, ordinal): loops are numbered in source order
        within their function (static, independent of the path taken)."""
        fn = self._fn_stack[-1] if self._fn_stack else ''
        fnode = self._fn_nodes[-1] if self._fn_nodes else None
        tab = self._loop_ordinal.get(id(fnode))
        if tab is None:
            tab = {}
            if fnode is not None:
                loops = [n for n in ast.walk(fnode)
                         if isinstance(n, (ast.For, ast.While))]
                loops.sort(key=lambda n: (n.lineno, n.col_offset))
                for i, n in enumerate(loops):
                    tab[(n.lineno, n.col_offset)] = i
            self._loop_ordinal[id(fnode)] = tab
        key = (node.lineno, node.col_offset)
        if key not in tab:
            tab[key] = len(tab)
        return fn, tab[key]

    def stmt_For(self, node, st):
        fn, k = self._loop_key(node)
        spec = self.loop_specs.get((fn, k))
        out = []
        for s1, it in self.eval_forking(node.iter, st):
            if getattr(self, 'iterable_hook', None) is not None:
                self.iterable_hook(node, it, s1)
            if isinstance(it, _Range):
                conc = all(not is_sym(x) for x in (it.start, it.stop,
                                                   it.step))
                if conc and spec is None:
                    seq = list(range(it.start, it.stop, it.step))
                    out.extend(self.unroll_for(node, s1, seq))
                else:
                    if spec is None:
                        raise VCError('for loop over symbolic range at %s '
                                      'needs an invariant (%s#%d)' %
                                      (self.where(node), fn, k))
                    out.extend(self.cut_loop(node, s1, spec, it))
            elif isinstance(it, SymSeq):
                if spec is None:
                    raise VCError('for loop over a symbolic sequence at %s '
                                  'needs an invariant (%s#%d)' %
                                  (self.where(node), fn, k))
                out.extend(self.cut_loop(node, s1, spec,
                                         _Range(0, it.length, 1), seq=it))
            elif isinstance(it, (set, frozenset)):
                out.extend(self.unroll_for(node, s1, sorted(it)))
            elif isinstance(it, (list, tuple)):
                out.extend(self.unroll_for(node, s1, list(it)))
            elif isinstance(it, dict):
                out.extend(self.unroll_for(node, s1, list(it.keys())))
            else:
                raise VCError('for over %r at %s' % (type(it).__name__,
                                                      self.where(node)))
        return out

    def unroll_for(self, node, st, seq):
        out = []
        cur = [st]
        if len(seq) > 4096:
            raise VCError('for loop too long to unroll')
        for item in seq:
            nxt = []
            for s1 in cur:
                self.assign(node.target, item, s1)
                for s2, sig in self.exec_block(node.body, s1):
                    if sig is None or sig[0] == 'continue':
                        if self.iter_hook is not None:
                            fn_, k_ = self._loop_key(node)
                            self.iter_hook(self, fn_, k_, item, s2)
                        nxt.append(s2)
                    elif sig[0] == 'break':
                        out.append((s2, None))
                    else:
                        out.append((s2, sig))
            cur = nxt
            if len(cur) > self.max_paths:
                raise VCError('path explosion in loop at %s' %
                              self.where(node))
        for s1 in cur:
            out.extend(self.exec_block(node.orelse, s1))
        return out

    def assigned_names(self, stmts):
        names, attrs, subs = set(), set(), set()
        for s in stmts:
            for n in ast.walk(s):
                tg = []
                if isinstance(n, ast.Assign):
                    tg = n.targets
                elif isinstance(n, (ast.AugAssign, ast.AnnAssign)):
                    tg = [n.target]
                elif isinstance(n, ast.For):
                    tg = [n.target]
                for t in tg:
                    for e in ast.walk(t):
                        if isinstance(e, ast.Name) and \
                                isinstance(e.ctx, ast.Store):
                            names.add(e.id)
                        elif isinstance(e, ast.Attribute) and \
                                isinstance(e.ctx, ast.Store) and \
                                isinstance(e.value, ast.Name):
                            attrs.add((e.value.id, e.attr))
                        elif isinstance(e, ast.Subscript) and \
                                isinstance(e.ctx, ast.Store):
                            b = e.value
                            if isinstance(b, ast.Name):
                                subs.add(b.id)
                            elif isinstance(b, ast.Attribute) and \
                                    isinstance(b.value, ast.Name):
                                subs.add((b.value.id, b.attr))
        return names, attrs, subs

    def havoc_value(self, v, hint):
        if isinstance(v, bool):
            return S.fresh(hint, 'bool')
        if isinstance(v, int):
            return S.fresh(hint, 'int')
        if isinstance(v, Fraction):
            return S.fresh(hint, 'real')
        if is_sym(v):
            if z3.is_int(v):
                return S.fresh(hint, 'int')
            if z3.is_real(v):
                return S.fresh(hint, 'real')
            if z3.is_bool(v):
                return S.fresh(hint, 'bool')
        if isinstance(v, S.XR):
            return S.XR(S.fresh(hint + '_isinf', 'bool'), S.fresh(hint,
                                                                   'real'))
        if isinstance(v, list):
            return [self.havoc_value(x, '%s_%d' % (hint, i))
                    for i, x in enumerate(v)]
        if isinstance(v, SymArray):
            srt = z3.RealSort() if v.elem == 'real' else z3.IntSort()
            n = S.fresh(hint, 'int')
            return SymArray(v.name, z3.Array(str(n) + '_arr', z3.IntSort(),
                                             srt), v.length, v.elem)
        if v is None or isinstance(v, (str, Opaque, _Poison)):
            return S.fresh(hint, 'real')
        raise VCError('cannot havoc %r' % (v,))

    def cut_loop(self, node, st, spec, rng, seq=None):
        """Cut a loop at its head with an inductive invariant."""
        fn, k = self._loop_key(node)
        tag = '%s#%d' % (fn, k)
        is_for = isinstance(node, ast.For)
        names, attrs, subs = self.assigned_names(node.body)
        tvar = None
        if is_for and seq is not None:
            # `for x in <symbolic sequence>`: a ghost index (named by the
            # spec) runs over 0..len-1 and the target is the element at it
            tvar = node.target
            ivar = spec.index or '_k'
            for e in ast.walk(tvar):
                if isinstance(e, ast.Name):
                    names.discard(e.id)
        elif is_for:
            if not isinstance(node.target, ast.Name):
                raise VCError('cut for-loop needs a simple target')
            ivar = node.target.id
            names.discard(ivar)
            if rng.step != 1:
                raise VCError('cut for-loop with step != 1')
        spec.log = dict(entry=None, head=None, ends=[], exits=[])
        spec.logs.append(spec.log)
        entry = st.clone()
        st.env['__entry__'] = entry.env

        def inv_holds(s, prefix, kind):
            for (nm, expr) in _named(spec.inv):
                v = self.eval_spec(expr, s)
                self.oblige('%s.%s.%s' % (tag, prefix, nm), s, v,
                            self.where(node), kind)

        # (1) invariant on entry
        if is_for:
            st.env[ivar + '__prev'] = st.env.get(ivar, None)
            st.env[ivar] = rng.start
        inv_holds(st, 'entry', 'inv-entry')
        # (2) arbitrary iteration
        h = st.clone()
        spec.log['entry'] = st.clone()
        for n in sorted(names | set(spec.extra_havoc)):
            if n in spec.havoc_map:
                h.env[n] = spec.havoc_map[n]
            elif n in h.env:
                h.env[n] = self.havoc_value(h.env[n], n)
            else:
                h.env[n] = _Poison(n)
        for (o, a) in sorted(attrs):
            obj = h.env.get(o)
            if isinstance(obj, SymObject) and a in obj.attrs:
                obj.attrs[a] = self.havoc_value(obj.attrs[a], '%s.%s' % (o, a))
        for sname in sorted(subs, key=str):
            if isinstance(sname, tuple):
                obj = h.env.get(sname[0])
                if isinstance(obj, SymObject) and sname[1] in obj.attrs:
                    obj.attrs[sname[1]] = self.havoc_value(
                        obj.attrs[sname[1]], '%s.%s' % sname)
            elif sname in h.env:
                h.env[sname] = self.havoc_value(h.env[sname], sname)
        if is_for:
            iv = spec.havoc_map.get(ivar)
            if iv is None:
                iv = S.fresh(ivar, 'int')
            h.env[ivar] = iv
            h.pc.append(S.to_z3(S.cmp('>=', iv, rng.start)))
            h.pc.append(S.to_z3(S.cmp('<=', iv, S.maxval(rng.stop,
                                                           rng.start))))
        for (nm, expr) in _named(spec.inv):
            v = S.to_bool(self.eval_spec(expr, h))
            if v is False:
                return []
            if is_sym(v):
                h.pc.append(v)
        for expr in spec.assume:
            v = S.to_bool(self.eval_spec(expr, h))
            if is_sym(v):
                h.pc.append(v)
        spec.log['head'] = h.clone()
        out = []
        # guard
        body_states = []
        exit_states = []
        if is_for:
            g = S.cmp('<', h.env[ivar], rng.stop)
            sb = h.clone()
            sb.pc.append(S.to_z3(g))
            body_states.append(sb)
            se = h
            se.pc.append(z3.Not(S.to_z3(g)))
            # python leaves the loop variable at its last value
            last = S.sub(rng.stop, 1)
            prev = se.env.get(ivar + '__prev')
            if prev is None or isinstance(prev, (_Poison, Opaque)):
                se.env[ivar] = last
            else:
                se.env[ivar] = S.ite(S.cmp('>', rng.stop, rng.start), last,
                                     prev)
            exit_states.append(se)
        else:
            for s2, c in self.eval_forking(node.test, h):
                c = S.to_bool(c)
                sb = s2.clone()
                if c is not True:
                    if c is False:
                        sb = None
                    else:
                        sb.pc.append(c)
                if sb is not None:
                    body_states.append(sb)
                if c is not True:
                    se = s2
                    if c is not False:
                        se.pc.append(z3.Not(c))
                    exit_states.append(se)
        for sb in body_states:
            if not self.feasible(sb.pc):
                continue
            if tvar is not None:
                self.assign(tvar, seq.elem(sb.env[ivar]), sb)
            v0 = None
            if spec.variant is not None:
                v0 = self.eval_spec(spec.variant, sb)
                self.oblige('%s.variant.nonneg' % tag, sb,
                            S.cmp('>=', v0, 0), self.where(node), 'variant')
            iv_cur = sb.env.get(ivar) if is_for else None
            for s3, sig in self.exec_block(node.body, sb):
                spec.log['ends'].append((s3.clone(), sig))
                if sig is None or sig[0] == 'continue':
                    if is_for:
                        s3.env[ivar] = S.add(iv_cur, 1)
                    inv_holds(s3, 'step', 'inv-step')
                    if v0 is not None:
                        v1 = self.eval_spec(spec.variant, s3)
                        self.oblige('%s.variant.decreases' % tag, s3,
                                    S.cmp('<', v1, v0), self.where(node),
                                    'variant')
                elif sig[0] == 'break':
                    out.append((s3, None))
                else:
                    out.append((s3, sig))
        for se in exit_states:
            if self.feasible(se.pc):
                if spec.exit_hook is not None:
                    spec.exit_hook(se)
                spec.log['exits'].append(se.clone())
                out.extend(self.exec_block(node.orelse, se))
        return out

    # ------------------------------------------------------------ assignment
    def assign(self, target, v, st):
        if self.on_assign is not None and is_sym(v) and not \
                isinstance(target, (ast.Tuple, ast.List)):
            v = self.on_assign(self, st, _dotted(target) if isinstance(
                target, (ast.Name, ast.Attribute)) else 'subscript', v)
        if isinstance(target, ast.Name):
            if isinstance(v, _Declared):
                v = v.one()         # x = declare('matrix(n)') / declare('int')
            st.env[target.id] = v
        elif isinstance(target, (ast.Tuple, ast.List)):
            if isinstance(v, (list, tuple)):
                if len(v) != len(target.elts):
                    raise VCError('unpack length')
                for t, x in zip(target.elts, v):
                    self.assign(t, x, st)
            elif isinstance(v, _Declared):
                for t in target.elts:
                    self.assign(t, v.one(), st)
            else:
                raise VCError('unpack of %r' % (v,))
        elif isinstance(target, ast.Attribute):
            obj = self.eval(target.value, st)
            if not isinstance(obj, SymObject):
                if hasattr(obj, 'vc_setattr'):
                    obj.vc_setattr(target.attr, v, self, st, target)
                    return
                raise VCError('attribute store on %r' % (obj,))
            obj.attrs[target.attr] = v
        elif isinstance(target, ast.Subscript):
            base = self.eval(target.value, st)
            idx = self.eval_index(target.slice, st)
            self.store(base, idx, v, st, target)
        else:
            raise VCError('assignment target %s' % type(target).__name__)

    def store(self, base, idx, v, st, node):
        if hasattr(base, 'vc_setitem'):
            return base.vc_setitem(idx, v, self, st, node)
        if isinstance(base, list):
            if isinstance(idx, tuple):   # a[i, j] on nested lists
                for i in idx[:-1]:
                    base = base[self._conc_index(i, len(base), st, node)]
                idx = idx[-1]
            if not is_sym(idx):
                if isinstance(idx, Fraction):
                    raise VCError('float index')
                if not (-len(base) <= idx < len(base)):
                    self.oblige('index.store@%s' % node.lineno, st, False,
                                self.where(node), 'index')
                    return
                base[idx] = v
            else:
                self.oblige('index.store@%s' % node.lineno, st,
                            S.b_and(S.cmp('>=', idx, 0),
                                    S.cmp('<', idx, len(base))),
                            self.where(node), 'index')
                for i in range(len(base)):
                    base[i] = S.ite(idx == i, v, base[i])
        elif isinstance(base, SymArray):
            self.oblige('index.store@%s' % node.lineno, st,
                        S.b_and(S.cmp('>=', idx, 0),
                                S.cmp('<', idx, base.length)),
                        self.where(node), 'index')
            zi = S.to_z3(idx)
            zv = S.to_real(v) if base.elem == 'real' else S.to_z3(v)
            base.arr = z3.Store(base.arr, zi, zv)
        elif isinstance(base, dict):
            base[idx] = v
        else:
            raise VCError('subscript store on %r' % (type(base).__name__,))

    def _conc_index(self, i, n, st, node):
        if is_sym(i):
            raise VCError('symbolic outer index')
        return i

    # ---------------------------------------------------------- expressions
    def eval_forking(self, node, st):
        """Evaluate an expression whose value is needed at statement level.
        -> list of (state, value).  A call to an inlined function that forks
        (several returns, or returns and raises) yields one entry per outcome;
        a raising outcome is returned as a _RaisedVal."""
        if isinstance(node, ast.Call):
            r = self.call_forking(node, st)
            if r is not None:
                return r
        try:
            v = self.eval(node, st)
        except _RaiseSignal as rs:
            return [(st, _RaisedVal(rs.raised))]
        return [(st, v)]

    def _inline_target(self, f):
        """(module, fn, self_obj, closure_env) if f is to be inlined."""
        if isinstance(f, _LocalFunc):
            return f.module, f.fn, None, f.env
        if isinstance(f, _BoundMethod):
            q = '%s.%s' % (f.cls.name, f.fn.name)
            qq = '%s.%s' % (f.obj.cls, f.fn.name)
            if any(k in self.externals for k in (qq, q, f.fn.name)) or \
                    any(k in self.contracts for k in (qq, q)):
                return None
            if q in self.inline or qq in self.inline or '*' in self.inline:
                return f.module, f.fn, f.obj, None
            return None
        if isinstance(f, _FuncRef):
            q = f.fn.name
            if q in self.externals or q in self.contracts:
                return None
            if q in self.inline or '*' in self.inline:
                return f.module, f.fn, None, None
        return None

    def call_forking(self, node, st):
        try:
            f = self.eval(node.func, st)
        except VCError:
            return None
        tgt = self._inline_target(f)
        if tgt is None:
            return None
        module, fn, self_obj, closure = tgt
        if any(isinstance(a, ast.Call) and isinstance(a.func, ast.Name) and
               a.func.id == 'addr_of' for a in node.args):
            # C out-parameters: handled by expr_Call (no forking inside)
            return None
        args = []
        for a in node.args:
            if isinstance(a, ast.Starred):
                args.extend(self.eval(a.value, st))
            else:
                args.append(self.eval(a, st))
        kwargs = self._eval_keywords(node, st)
        if self_obj is not None:
            args = [self_obj] + args
        params = [p.arg for p in fn.args.args]
        sub = {}
        for p_, v in zip(params, args):
            sub[p_] = v
        sub.update(kwargs)
        env = dict(closure) if closure else {}
        defaults = dict(zip(params[len(params) - len(fn.args.defaults):],
                            fn.args.defaults))
        for p_ in params:
            if p_ in sub:
                env[p_] = sub[p_]
            elif p_ in defaults:
                env[p_] = self.eval_default(defaults[p_], p_)
            else:
                raise VCError('missing argument %s of %s' % (p_, fn.name))
        st.frames.append(st.env)
        st.env = env
        saved_mod, saved_cache = self.module, self._modconst_cache
        if module is not self.module:
            self.module = module
            self._modconst_cache = {}
        self._fn_stack.append(fn.name)
        self._fn_nodes.append(fn)
        try:
            results = self.exec_block(fn.body, st)
        finally:
            self._fn_stack.pop()
            self._fn_nodes.pop()
            self.module, self._modconst_cache = saved_mod, saved_cache
        out = []
        for s2, sig in results:
            s2.env = s2.frames.pop()
            if sig is None:
                out.append((s2, None))
            elif sig[0] == 'return':
                out.append((s2, sig[1]))
            elif sig[0] == 'raise':
                out.append((s2, _RaisedVal(sig[1])))
            else:
                raise VCError('break/continue outside loop')
        return out

    def eval(self, node, st):
        m = getattr(self, 'expr_' + type(node).__name__, None)
        if m is None:
            raise VCError('expression %s at %s' % (type(node).__name__,
                                                   self.where(node)))
        return m(node, st)

    def eval_spec(self, expr, st):
        """Evaluate a contract expression string in the state's env."""
        if callable(expr):
            return expr(self, st)
        tree = ast.parse(expr, mode='eval').body
        saved = self.definedness
        self.definedness = 'ignore'
        try:
            return self.eval(tree, st)
        finally:
            self.definedness = saved

    def expr_Constant(self, node, st):
        v = node.value
        if isinstance(v, float):
            return S.lit_float(v)
        return v

    def expr_Name(self, node, st):
        n = node.id
        if n in st.env:
            v = st.env[n]
            if isinstance(v, _Poison):
                self.oblige('unbound.%s@%s' % (n, node.lineno), st, False,
                            self.where(node), 'unbound')
                return S.fresh('unbound_' + n)
            return v
        if n in self.spec_env:
            return self.spec_env[n]
        return self.module_name(n, node, st)

    def module_name(self, n, node=None, st=None):
        if n in self._modconst_cache:
            return self._modconst_cache[n]
        m = self.module
        if n in ('True', 'False', 'None'):
            return {'True': True, 'False': False, 'None': None}[n]
        if n in m.assigns:
            try:
                v = self.eval(m.assigns[n], State())
            except VCError:
                # a module-level object the subset cannot build (logger, ...)
                v = Opaque('modconst:' + n)
            self._modconst_cache[n] = v
            return v
        if n in m.functions:
            return _FuncRef(m, m.functions[n])
        if n in m.classes:
            return _ClassRef(m, m.classes[n])
        if n in m.imports:
            mod, orig = m.imports[n]
            if mod in ('math', 'numpy') or (mod or '').startswith('numpy'):
                if orig is None:
                    return Opaque('module:' + mod)
                if orig == 'pi':
                    return S.PI
                if orig in MATH_FUNCS or orig in ('abs',):
                    return _Builtin(orig)
                return Opaque('import:%s.%s' % (mod, orig))
            if orig is None:
                return Opaque('module:' + mod)
            if orig == 'declare':
                return _Builtin('declare')
            if self.repo.has_module(mod):
                m2 = self.repo.module(mod)
                if orig in m2.functions:
                    return _FuncRef(m2, m2.functions[orig])
                if orig in m2.classes:
                    return _ClassRef(m2, m2.classes[orig])
                if orig in m2.assigns:
                    sub = Executor(self.repo, m2)
                    return sub.module_name(orig)
            return Opaque('import:%s.%s' % (mod, orig))
        if n in _BUILTIN_NAMES:
            return _Builtin(n)
        if n in MATH_FUNCS:
            return _Builtin(n)
        if n in ('M_PI',):
            return S.PI
        if n in ('M_1_PI',):
            return S.div(1, S.PI)
        if n in ('M_2_SQRTPI',):
            return S.div(2, S.UF['sqrt'](S.PI))
        if n in ('ValueError', 'RuntimeError', 'TypeError', 'KeyError',
                 'NotImplementedError', 'Exception', 'AttributeError'):
            return Opaque('exc:' + n)
        raise VCError('unknown name %s at %s' % (
            n, self.where(node) if node is not None else '?'))

    def expr_Attribute(self, node, st):
        base = self.eval(node.value, st)
        a = node.attr
        if isinstance(base, SymObject):
            if a in base.attrs:
                v = base.attrs[a]
                if isinstance(v, Native) and v.bind:
                    # a method model: receives the object of THIS state
                    return Native(lambda ex, s_, ar, kw, n, _f=v.fn, _o=base:
                                  _f(ex, s_, [_o] + list(ar), kw, n), v.name)
                return v
            if base.cls is not None:
                r = self.find_method(base, a)
                if r is not None:
                    return _BoundMethod(base, r[0], r[1], r[2])
            fac = getattr(base, 'lazy_factory', None)
            if fac is not None:
                # attributes the contract models on demand
                v = fac(a)
                if v is not None:
                    base.attrs[a] = v
                    return v
            if getattr(self, 'lazy_attrs', False):
                # an instance attribute the contract leaves arbitrary
                v = z3.Real('%s.%s' % (base.name, a))
                base.attrs[a] = v
                return v
            raise VCError('attribute %s of %r at %s' % (a, base,
                                                        self.where(node)))
        if isinstance(base, Opaque):
            if base.name in ('module:math', 'module:numpy', 'module:np'):
                if a == 'pi':
                    return S.PI
                if a == 'inf':
                    return S.INF
                if a in MATH_FUNCS or a in ('abs', 'isinf', 'min', 'max',
                                            'any', 'all'):
                    return _Builtin(a)
            return Opaque(base.name + '.' + a)
        if hasattr(base, 'vc_getattr'):
            return base.vc_getattr(a, self, st, node)
        if isinstance(base, (set, frozenset)):
            return _SetMethod(base, a)
        if isinstance(base, list):
            if a in ('append', 'extend', 'pop', 'index', 'insert', 'remove',
                     'sort', 'copy', 'count'):
                return _ListMethod(base, a)
        if isinstance(base, dict):
            if a in ('get', 'keys', 'values', 'items', 'update', 'pop',
                     'setdefault', 'copy', 'has_key', 'clear'):
                return _DictMethod(base, a)
        if isinstance(base, str):
            return _StrMethod(base, a)
        if isinstance(base, SymArray):
            if a in ('length', 'size'):
                return base.length
        if isinstance(base, _ClassRef):
            for n in base.node.body:
                if isinstance(n, ast.FunctionDef) and n.name == a:
                    return _FuncRef(base.module, n)
        raise VCError('attribute %s of %r at %s' % (a, type(base).__name__,
                                                    self.where(node)))

    def truthy(self, v, st, node):
        """Python truth value.  An instance of a class that defines __bool__
        or __len__ is tested through that method (an empty container-like
        object is falsy), not by identity."""
        if isinstance(v, SymObject) and getattr(v, 'cls', None) is not None:
            for nm in ('__bool__', '__len__'):
                try:
                    r = self.find_method(v, nm)
                except VCError:
                    r = None
                if r is not None:
                    res = self.inline_call(r[0], r[2], [v], {}, st, node)
                    return S.to_bool(res)
        if hasattr(v, 'vc_truth'):
            return v.vc_truth(self, st, node)
        return S.to_bool(v)

    def find_method(self, obj, name):
        """Method lookup: explicit obj.mro [(ModuleInfo, ClassDef)...] when
        the contract supplies one (Cython classes spread over files), a
        ModuleInfo in obj.module, or a module name resolved in the repo."""
        mro = getattr(obj, 'mro', None)
        mod = getattr(obj, 'module', None)
        if mro is None and mod is not None and not isinstance(mod, str):
            mro = []
            todo = [obj.cls]
            while todo:
                c = todo.pop(0)
                if c in mod.classes:
                    cd = mod.classes[c]
                    mro.append((mod, cd))
                    todo.extend(b.id for b in cd.bases
                                if isinstance(b, ast.Name))
        if mro is not None:
            for m, c in mro:
                for n in c.body:
                    if isinstance(n, ast.FunctionDef) and n.name == name:
                        return m, c, n
            return None
        modname = mod or self.module.name
        return self.repo.find_method(modname, obj.cls, name)

    def eval_index(self, sl, st):
        if isinstance(sl, ast.Slice):
            lo = self.eval(sl.lower, st) if sl.lower is not None else None
            hi = self.eval(sl.upper, st) if sl.upper is not None else None
            sp = self.eval(sl.step, st) if sl.step is not None else None
            return slice(lo, hi, sp)
        if isinstance(sl, ast.Tuple):
            return tuple(self.eval_index(e, st) for e in sl.elts)
        return self.eval(sl, st)

    def expr_Subscript(self, node, st):
        base = self.eval(node.value, st)
        idx = self.eval_index(node.slice, st)
        return self.load(base, idx, st, node)

    def load(self, base, idx, st, node):
        if hasattr(base, 'vc_getitem'):
            return base.vc_getitem(idx, self, st, node)
        if isinstance(base, (list, tuple)):
            if isinstance(idx, slice):
                if any(is_sym(x) for x in (idx.start, idx.stop, idx.step)):
                    raise VCError('symbolic slice')
                return base[idx]
            if isinstance(idx, tuple):
                v = base
                for i in idx:
                    v = self.load(v, i, st, node)
                return v
            if not is_sym(idx):
                if isinstance(idx, Fraction):
                    raise VCError('float index at %s' % self.where(node))
                if not (-len(base) <= idx < len(base)):
                    self.oblige('index.load@%s' % node.lineno, st, False,
                                self.where(node), 'index')
                    return S.fresh('oob')
                return base[idx]
            self.oblige('index.load@%s' % node.lineno, st,
                        S.b_and(S.cmp('>=', idx, 0),
                                S.cmp('<', idx, len(base))),
                        self.where(node), 'index')
            if not base:
                return S.fresh('oob')
            v = base[-1]
            for i in range(len(base) - 2, -1, -1):
                v = S.ite(idx == i, base[i], v)
            return v
        if isinstance(base, SymArray):
            self.oblige('index.load@%s' % node.lineno, st,
                        S.b_and(S.cmp('>=', idx, 0),
                                S.cmp('<', idx, base.length)),
                        self.where(node), 'index')
            return z3.Select(base.arr, S.to_z3(idx))
        if isinstance(base, dict):
            if is_sym(idx):
                raise VCError('symbolic dict key')
            if idx not in base:
                if hasattr(base, '__missing__'):
                    return base[idx]
                return ('__keyerror__', idx)
            return base[idx]
        if isinstance(base, str):
            return base[idx]
        raise VCError('subscript of %r at %s' % (type(base).__name__,
                                                 self.where(node)))

    def expr_List(self, node, st):
        return [self.eval(e, st) for e in node.elts]

    def expr_Tuple(self, node, st):
        return tuple(self.eval(e, st) for e in node.elts)

    def expr_Dict(self, node, st):
        return {self.eval(k, st): self.eval(v, st)
                for k, v in zip(node.keys, node.values)}

    def expr_JoinedStr(self, node, st):
        return '<fstring>'

    def expr_UnaryOp(self, node, st):
        v = self.eval(node.operand, st)
        if isinstance(node.op, ast.USub):
            return S.neg(v)
        if isinstance(node.op, ast.UAdd):
            return v
        if isinstance(node.op, ast.Not):
            if isinstance(v, SymObject) or hasattr(v, 'vc_truth'):
                return S.b_not(self.truthy(v, st, node))
            return S.b_not(v)
        raise VCError('unary op')

    def expr_BinOp(self, node, st):
        a = self.eval(node.left, st)
        b = self.eval(node.right, st)
        return self.binop(node.op, a, b, st, node)

    def binop(self, op, a, b, st, node):
        # values modelled by a contract (numpy vectors, ...) implement the
        # operator themselves
        if hasattr(a, 'vc_binop'):
            return a.vc_binop(type(op).__name__, b, False, self, st, node)
        if hasattr(b, 'vc_binop'):
            return b.vc_binop(type(op).__name__, a, True, self, st, node)
        if isinstance(op, ast.Add):
            return S.add(a, b)
        if isinstance(op, ast.Sub):
            return S.sub(a, b)
        if isinstance(op, ast.Mult):
            if isinstance(a, S.XR) and a.inf is not False and \
                    not isinstance(b, S.XR):
                return self.xr_scale(a, b, st, node, '*')
            if isinstance(b, S.XR) and b.inf is not False and \
                    not isinstance(a, S.XR):
                return self.xr_scale(b, a, st, node, '*')
            return S.mul(a, b)
        if isinstance(op, ast.Div):
            return self.divide(a, b, st, node)
        if isinstance(op, ast.FloorDiv):
            self.nonzero(b, st, node)
            return S.floordiv(a, b)
        if isinstance(op, ast.Mod):
            if isinstance(a, str):
                try:
                    vals = b if isinstance(b, tuple) else (b,)
                    if all(isinstance(x, (str, int, bool, type(None)))
                           for x in vals):
                        return a % b
                    if all(isinstance(x, (str, int, bool, type(None))) or
                           is_sym(x) for x in vals):
                        # a symbolic number printed into generated text: an
                        # opaque marker naming the term (sound as long as the
                        # code does not parse the string again)
                        vv = tuple('<<%s>>' % z3.simplify(x) if is_sym(x)
                                   else x for x in vals)
                        return a % (vv if isinstance(b, tuple) else vv[0])
                except Exception:
                    pass
                return '<formatted>'
            self.nonzero(b, st, node)
            return S.mod(a, b)
        if isinstance(op, ast.Pow):
            r = S.power(a, b)
            if is_sym(r) and z3.is_app(r) and r.decl().name() == 'pow' \
                    and self.definedness != 'ignore' and is_sym(a):
                # real power with a non-integer exponent: base > 0
                g = S.to_real(a) > 0
                if self.definedness == 'obligation':
                    self.oblige('defined.pow@%s' % node.lineno, st, g,
                                self.where(node), 'defined')
                st.pc.append(z3.Implies(z3.And(*self._guard), g)
                             if self._guard else g)
            return r
        if isinstance(a, (set, frozenset)) and isinstance(b, (set,
                                                              frozenset)):
            if isinstance(op, ast.BitOr):
                return a | b
            if isinstance(op, ast.BitAnd):
                return a & b
            if isinstance(op, ast.Sub):
                return a - b
        if isinstance(op, ast.BitAnd):
            return S.b_and(a, b)
        if isinstance(op, ast.BitOr):
            return S.b_or(a, b)
        raise VCError('binary op %s' % type(op).__name__)

    def nonzero(self, b, st, node):
        if not is_sym(b):
            if b == 0:
                self.oblige('defined.div@%s' % node.lineno, st, False,
                            self.where(node), 'defined')
                raise _DeadPath()
            return
        if self.definedness == 'ignore':
            return
        if self.definedness == 'obligation':
            self.oblige('defined.div@%s' % node.lineno, st, b != 0,
                        self.where(node), 'defined')
        # in both modes the rest of the path may use b != 0
        st.pc.append(z3.Implies(z3.And(*self._guard), b != 0)
                     if self._guard else b != 0)

    def xr_scale(self, a, b, st, node, op):
        """a (extended real) times / divided by a finite b: +inf stays +inf,
        which is only right for b > 0 -- a side obligation."""
        self.oblige('xr.positive@%s' % node.lineno, st,
                    S.cmp('>', b, 0), self.where(node), 'defined')
        val = S.mul(a.val, b) if op == '*' else S.div(a.val, b)
        return S.XR(a.inf, val)

    def divide(self, a, b, st, node):
        if isinstance(a, S.XR) and not isinstance(b, S.XR):
            self.nonzero(b, st, node)
            return self.xr_scale(a, b, st, node, '/')
        self.nonzero(b, st, node)
        return S.div(a, b)

    def expr_BoolOp(self, node, st):
        vals = []
        npush = 0
        try:
            for e in node.values:
                v = self.eval(e, st)
                vb = self.truthy(v, st, node)
                if isinstance(node.op, ast.And):
                    if vb is False:
                        return False if vals else v
                    if vb is True:
                        last = v
                        continue
                    vals.append(vb)
                    self._guard.append(vb)
                    npush += 1
                else:
                    if vb is True:
                        if not vals:
                            return v
                        vals.append(True)
                        break
                    if vb is False:
                        continue
                    vals.append(vb)
                    self._guard.append(z3.Not(vb))
                    npush += 1
        finally:
            for _ in range(npush):
                self._guard.pop()
        if isinstance(node.op, ast.And):
            return S.b_and(*vals) if vals else True
        return S.b_or(*vals) if vals else False

    def expr_Compare(self, node, st):
        left = self.eval(node.left, st)
        res = []
        for op, rn in zip(node.ops, node.comparators):
            right = self.eval(rn, st)
            res.append(self.compare(op, left, right, node))
            left = right
        return S.b_and(*res) if len(res) > 1 else res[0]

    def compare(self, op, a, b, node):
        t = type(op)
        if t in _CMP and hasattr(a, 'vc_compare'):
            return a.vc_compare(_CMP[t], b, False)
        if t in _CMP and hasattr(b, 'vc_compare'):
            return b.vc_compare(_CMP[t], a, True)
        if t in _CMP:
            if isinstance(a, Opaque) or isinstance(b, Opaque):
                raise VCError('comparison of opaque value at %s' %
                              self.where(node))
            return S.cmp(_CMP[t], a, b)
        if t is ast.Is:
            # Optional values modelled by a contract: `x is None` is a ghost
            if b is None and hasattr(a, 'is_none'):
                return a.is_none
            if a is None and hasattr(b, 'is_none'):
                return b.is_none
            if a is None or b is None:
                if is_sym(a) or is_sym(b):
                    return False
                return a is b
            return S.cmp('==', a, b)
        if t is ast.IsNot:
            return S.b_not(self.compare(ast.Is(), a, b, node))
        if t is ast.In:
            if hasattr(b, 'sym_contains'):
                return b.sym_contains(a)
            if isinstance(b, (list, tuple)):
                return S.b_or(*[S.cmp('==', a, x) for x in b]) if b else False
            if isinstance(b, dict):
                return a in b
            if isinstance(b, (set, frozenset)):
                if not is_sym(a):
                    try:
                        return a in b
                    except TypeError:
                        pass
                return S.b_or(*[S.cmp('==', a, x) for x in sorted(
                    b, key=repr)]) if b else False
            if isinstance(b, str) and isinstance(a, str):
                return a in b
            raise VCError('in')
        if t is ast.NotIn:
            return S.b_not(self.compare(ast.In(), a, b, node))
        raise VCError('comparison op')

    def expr_Lambda(self, node, st):
        """lambda args: body  ==  a local function returning body"""
        fn = ast.FunctionDef(name='<lambda>', args=node.args,
                             body=[ast.Return(value=node.body)],
                             decorator_list=[], returns=None)
        ast.copy_location(fn, node)
        ast.fix_missing_locations(fn)
        return _LocalFunc(self.module, fn, st.env)

    def expr_IfExp(self, node, st):
        c = S.simp(self.truthy(self.eval(node.test, st), st, node))
        if c is True:
            return self.eval(node.body, st)
        if c is False:
            return self.eval(node.orelse, st)
        self._guard.append(c)
        try:
            a = self.eval(node.body, st)
        finally:
            self._guard.pop()
        self._guard.append(z3.Not(c))
        try:
            b = self.eval(node.orelse, st)
        finally:
            self._guard.pop()
        return S.ite(c, a, b)

    def expr_GeneratorExp(self, node, st):
        if len(node.generators) != 1:
            raise VCError('generator expression')
        g = node.generators[0]
        it = self.eval(g.iter, st)
        if isinstance(it, SymSeq):
            if g.ifs:
                raise VCError('filtered generator over a symbolic sequence')
            j = S.fresh('j', 'int')
            saved = dict(st.env)
            self.assign(g.target, it.elem(j), st)
            body = S.to_bool(self.eval(node.elt, st))
            st.env = saved
            return _SymGen(j, it.length, body)
        return self.expr_ListComp(node, st)

    def expr_ListComp(self, node, st):
        if len(node.generators) != 1:
            raise VCError('nested comprehension')
        g = node.generators[0]
        it = self.eval(g.iter, st)
        if isinstance(it, _Range):
            if any(is_sym(x) for x in (it.start, it.stop, it.step)):
                raise VCError('symbolic comprehension')
            it = range(it.start, it.stop, it.step)
        if isinstance(it, dict):
            it = list(it.keys())
        if isinstance(it, (set, frozenset)):
            it = sorted(it)
        if not isinstance(it, (list, tuple, range)):
            raise VCError('comprehension over %r' % type(it).__name__)
        out = []
        saved = dict(st.env)
        for x in it:
            self.assign(g.target, x, st)
            ok = True
            for cnd in g.ifs:
                c = S.to_bool(self.eval(cnd, st))
                if is_sym(c):
                    raise VCError('symbolic comprehension filter')
                ok = ok and c
            if ok:
                out.append(self.eval(node.elt, st))
        st.env = saved
        return out

    # ---- calls
    def expr_Call(self, node, st):
        f = self.eval(node.func, st)
        args = []
        boxes = []
        for a in node.args:
            if isinstance(a, ast.Starred):
                args.extend(self.eval(a.value, st))
            elif (isinstance(a, ast.Call) and isinstance(a.func, ast.Name)
                  and a.func.id == 'addr_of' and len(a.args) == 1 and
                  isinstance(a.args[0], (ast.Name, ast.Attribute))):
                # C out-parameter &x: pass a one-cell box, write back after
                tgt = a.args[0]
                try:
                    cur = self.eval(_as_load(tgt), st)
                except VCError:
                    cur = _Poison(_dotted(tgt))
                if isinstance(tgt, ast.Name) and tgt.id not in st.env:
                    cur = _Poison(tgt.id)
                box = [cur]
                boxes.append((tgt, box))
                args.append(box)
            else:
                args.append(self.eval(a, st))
        kwargs = self._eval_keywords(node, st)
        r = self.call(f, args, kwargs, st, node)
        for tgt, box in boxes:
            self.assign(tgt, box[0], st)
        return r

    def _eval_keywords(self, node, st):
        kwargs = {}
        for k in node.keywords:
            v = self.eval(k.value, st)
            if k.arg is None:           # f(**mapping)
                if not isinstance(v, dict):
                    raise VCError('** of a non-dict at %s' % self.where(node))
                kwargs.update(v)
            else:
                kwargs[k.arg] = v
        return kwargs

    def call(self, f, args, kwargs, st, node):
        if isinstance(f, Native):
            return f.fn(self, st, args, kwargs, node)
        if isinstance(f, _Builtin):
            if f.name in self.externals:
                return self.externals[f.name](self, st, args, kwargs, node)
            return self.call_builtin(f.name, args, kwargs, st, node)
        if isinstance(f, (_ListMethod, _DictMethod, _StrMethod, _SetMethod)):
            return f.call(self, args, kwargs, st, node)
        if isinstance(f, _BoundMethod):
            q = '%s.%s' % (f.cls.name, f.fn.name)
            qq = '%s.%s' % (f.obj.cls, f.fn.name)
            for key in (qq, q, f.fn.name):
                if key in self.externals:
                    return self.externals[key](self, st, [f.obj] + args,
                                               kwargs, node)
            for key in (qq, q):
                if key in self.contracts:
                    return self.contracts[key].fn(self, st, [f.obj] + args,
                                                  kwargs, node)
            if q in self.inline or qq in self.inline or '*' in self.inline:
                return self.inline_call(f.module, f.fn, [f.obj] + args,
                                        kwargs, st, node)
            raise VCError('call to %s has neither contract nor inline at %s'
                          % (qq, self.where(node)))
        if isinstance(f, _LocalFunc):
            sub = dict(f.env)
            return self.inline_call(f.module, f.fn, args, kwargs, st, node)
        if isinstance(f, _FuncRef):
            q = f.fn.name
            if q in self.externals:
                return self.externals[q](self, st, args, kwargs, node)
            if q in self.contracts:
                return self.contracts[q].fn(self, st, args, kwargs, node)
            if q in self.inline or '*' in self.inline:
                return self.inline_call(f.module, f.fn, args, kwargs, st,
                                        node)
            raise VCError('call to %s has neither contract nor inline at %s'
                          % (q, self.where(node)))
        if isinstance(f, Opaque):
            nm = f.name.split('.')[-1].split(':')[-1]
            full = f.name
            for key in (full, nm):
                if key in self.externals:
                    return self.externals[key](self, st, args, kwargs, node)
            if nm in ('debug', 'info', 'warning', 'warn', 'error') or \
                    'logger' in full or 'logging' in full:
                self.dropped.add('logger call')
                return None
            raise VCError('call to opaque %s at %s' % (f.name,
                                                       self.where(node)))
        if isinstance(f, _ClassRef):
            key = f.node.name
            if key in self.externals:
                return self.externals[key](self, st, args, kwargs, node)
            raise VCError('constructor call %s at %s' % (key,
                                                         self.where(node)))
        raise VCError('call of %r at %s' % (f, self.where(node)))

    def inline_call(self, module, fn, args, kwargs, st, node):
        sub_args = {}
        params = [p.arg for p in fn.args.args]
        for p, v in zip(params, args):
            sub_args[p] = v
        for k, v in kwargs.items():
            sub_args[k] = v
        saved_mod, saved_cache = self.module, self._modconst_cache
        saved_env = st.env
        if module is not self.module:
            self.module = module
            self._modconst_cache = {}
        try:
            callee_state = State({}, st.pc, st.trace)
            outs = self.exec_function(fn, sub_args, callee_state)
        finally:
            self.module, self._modconst_cache = saved_mod, saved_cache
        res = []
        if outs and all(o.kind == 'raise' for o in outs) and len(outs) == 1:
            st.pc[:] = outs[0].state.pc
            st.trace[:] = outs[0].state.trace
            raise _RaiseSignal(outs[0].value)
        for o in outs:
            if o.kind == 'raise':
                raise VCError('inlined callee %s may raise %s (call it at '
                              'statement level)' % (fn.name, o.value))
            s2 = State(saved_env, o.state.pc, o.state.trace)
            res.append((s2, o.value))
        if len(res) == 1:
            st.pc[:] = res[0][0].pc
            st.trace[:] = res[0][0].trace
            # the callee may have forked and merged internally: its final
            # argument objects are then copies -- write them back in place
            fin = [o for o in outs if o.kind == 'return'][0].state.env
            for p_, v in sub_args.items():
                f = fin.get(p_)
                if f is v or f is None:
                    continue
                if isinstance(v, list) and isinstance(f, list):
                    v[:] = f
                elif isinstance(v, SymObject) and isinstance(f, SymObject):
                    v.attrs = f.attrs
                elif isinstance(v, SymArray) and isinstance(f, SymArray):
                    v.arr, v.length = f.arr, f.length
                elif isinstance(v, dict) and isinstance(f, dict):
                    v.clear()
                    v.update(f)
            return res[0][1]
        if not res:
            raise _DeadPath()
        # several outcomes: fold them into one with if-then-else on the
        # callee's own branch conditions (value and list arguments)
        n0 = len(st.pc)
        outs_ok = [o for o in outs if o.kind == 'return']
        if any(o.state.trace != outs_ok[0].state.trace for o in outs_ok):
            raise VCError('inlined callee %s forks with different traces'
                          % fn.name)
        conds = []
        for o in outs_ok:
            extra = o.state.pc[n0:]
            conds.append(z3.And(*extra) if len(extra) > 1 else
                         (extra[0] if extra else z3.BoolVal(True)))

        def fold(vals):
            r = vals[-1]
            for c, v in zip(reversed(conds[:-1]), reversed(vals[:-1])):
                r = S.ite(c, v, r)
            return r
        vals = [o.value for o in outs_ok]
        if all(v is None for v in vals):
            ret = None
        elif all(S.is_num(v) or isinstance(v, bool) for v in vals):
            ret = fold(vals)
        else:
            raise VCError('inlined callee %s forks with non-numeric results'
                          % fn.name)
        for p_, v in sub_args.items():
            if isinstance(v, list):
                finals = [o.state.env.get(p_) for o in outs_ok]
                if not all(isinstance(f, list) and len(f) == len(v)
                           for f in finals):
                    raise VCError('inlined callee %s rebinds list arg' %
                                  fn.name)
                for i in range(len(v)):
                    v[i] = fold([f[i] for f in finals])
            elif isinstance(v, SymObject):
                for o in outs_ok:
                    f = o.state.env.get(p_)
                    if not isinstance(f, SymObject) or \
                            set(f.attrs) - set(v.attrs) or any(
                                not S.same(f.attrs[a_], v.attrs[a_])
                                for a_ in f.attrs
                                if not isinstance(f.attrs[a_], (
                                    SymObject, SymSeq, Native, list, dict))):
                        raise VCError('inlined callee %s forks and mutates '
                                      'an object argument' % fn.name)
            elif isinstance(v, (SymArray, dict)):
                raise VCError('inlined callee %s forks with object args' %
                              fn.name)
        st.trace[:] = outs_ok[0].state.trace
        return ret

    def call_builtin(self, name, args, kwargs, st, node):
        if name == 'abs' or name == 'fabs':
            if hasattr(args[0], 'vc_abs'):
                return args[0].vc_abs()
            return S.absval(args[0])
        if name == 'min' or name == 'max':
            f = S.minval if name == 'min' else S.maxval
            if len(args) == 1:
                args = list(args[0])
            r = args[0]
            for x in args[1:]:
                r = f(r, x)
            return r
        if name == 'float':
            v = args[0]
            if is_sym(v):
                return S.to_real(v)
            if isinstance(v, str):
                if v == 'inf':
                    return S.INF
                return Fraction(v)
            return Fraction(v)
        if name == 'int':
            v = args[0]
            if is_sym(v):
                if z3.is_int(v):
                    return v
                # C / Python truncation toward zero
                return z3.If(v >= 0, z3.ToInt(v), -z3.ToInt(-v))
            return int(v)
        if name == 'bool':
            return S.to_bool(args[0])
        if name == 'len':
            v = args[0]
            if hasattr(v, 'vc_len'):
                return v.vc_len(self, st, node)
            if isinstance(v, SymArray):
                return v.length
            return len(v)
        if name == 'range':
            a = [x for x in args]
            if len(a) == 1:
                return _Range(0, a[0], 1)
            if len(a) == 2:
                return _Range(a[0], a[1], 1)
            return _Range(a[0], a[1], a[2])
        if name == 'declare':
            self.dropped.add('declare() (types only)')
            t = args[0]
            n = args[1] if len(args) > 1 else 1
            return _Declared(t, n)
        if name in ('sqrt',):
            v = args[0]
            if isinstance(v, S.XR):
                inner = self.call_builtin('sqrt', [v.val], kwargs, st, node)
                return S.XR(v.inf, inner)
            if not is_sym(v):
                fv = Fraction(v)
                if fv < 0:
                    self.oblige('defined.sqrt@%s' % node.lineno, st, False,
                                self.where(node), 'defined')
                    raise _DeadPath()
                num, den = _isqrt(fv.numerator), _isqrt(fv.denominator)
                if num is not None and den is not None:
                    return Fraction(num, den)
                return S.UF['sqrt'](S.to_real(fv))
            if self.definedness == 'obligation':
                self.oblige('defined.sqrt@%s' % node.lineno, st,
                            S.to_real(v) >= 0, self.where(node), 'defined')
            if self.definedness != 'ignore':
                g = S.to_real(v) >= 0
                st.pc.append(z3.Implies(z3.And(*self._guard), g)
                             if self._guard else g)
            return S.UF['sqrt'](S.to_real(v))
        if name in ('exp', 'log', 'sin', 'cos', 'tan', 'acos', 'atan',
                    'tanh', 'erf'):
            v = args[0]
            if name == 'exp' and not is_sym(v) and v == 0:
                return Fraction(1)
            return S.UF[name](S.to_real(v))
        if name == 'atan2':
            return S.UF['atan2'](S.to_real(args[0]), S.to_real(args[1]))
        if name == 'pow':
            return S.power(args[0], args[1])
        if name == 'floor':
            v = args[0]
            if not is_sym(v):
                import math
                return Fraction(math.floor(v))
            return S.to_real(z3.ToInt(S.to_real(v)))
        if name == 'ceil':
            v = args[0]
            if not is_sym(v):
                import math
                return Fraction(math.ceil(v))
            return S.to_real(-z3.ToInt(-S.to_real(v)))
        if name == 'print' or name == 'printf':
            self.dropped.add('print call')
            return None
        if name == 'isinstance':
            # decided only for concrete Python values against builtin types
            v, c = args[0], args[1]
            cs = c if isinstance(c, tuple) else (c,)
            py = {'int': int, 'float': float, 'list': list, 'tuple': tuple,
                  'str': str, 'dict': dict, 'bool': bool, 'set': set}
            if all(isinstance(x, _Builtin) and x.name in py for x in cs) \
                    and isinstance(v, (bool, int, float, Fraction, list,
                                       tuple, str, dict, set)) \
                    and not is_sym(v):
                if isinstance(v, Fraction):
                    return any(x.name == 'float' for x in cs)
                return isinstance(v, tuple(py[x.name] for x in cs))
            raise VCError('isinstance')
        if name == 'list':
            if not args:
                return []
            v = args[0]
            if hasattr(v, 'vc_tolist'):
                return v.vc_tolist()
            if isinstance(v, (set, frozenset)):
                return sorted(v)
            if isinstance(v, _Range):
                return list(range(v.start, v.stop, v.step))
            if isinstance(v, dict):
                return list(v.keys())
            return list(v)
        if name == 'tuple':
            return tuple(args[0]) if args else ()
        if name == 'set' or name == 'frozenset':
            if not args:
                return set()
            v = args[0]
            if hasattr(v, 'vc_toset'):
                return v.vc_toset()
            return set(v)
        if name == 'getattr':
            o, a = args[0], args[1]
            if isinstance(o, SymObject):
                if a in o.attrs:
                    return o.attrs[a]
                r = self.find_method(o, a) if o.cls is not None else None
                if r is not None:
                    return _BoundMethod(o, r[0], r[1], r[2])
                if len(args) > 2:
                    return args[2]
            raise VCError('getattr(%r, %r)' % (o, a))
        if name == 'setattr':
            o, a, v = args[0], args[1], args[2]
            if isinstance(o, SymObject) and isinstance(a, str):
                o.attrs[a] = v
                return None
            if hasattr(o, 'vc_setattr') and isinstance(a, str):
                o.vc_setattr(a, v, self, st, node)
                return None
            raise VCError('setattr(%r, %r)' % (o, a))
        if name == 'dict':
            d = dict(args[0]) if args else {}
            d.update(kwargs)
            return d
        if name == 'sum':
            r = 0
            for x in args[0]:
                r = S.add(r, x)
            return r
        if name == 'enumerate':
            return [(i, x) for i, x in enumerate(args[0])]
        if name == 'zip':
            return [tuple(x) for x in zip(*args)]
        if name == 'sorted':
            if hasattr(args[0], 'vc_sorted'):
                return args[0].vc_sorted()
            return sorted(args[0])
        if name == 'str':
            return str(args[0]) if not is_sym(args[0]) else '<str>'
        if name == 'hasattr':
            o = args[0]
            if isinstance(o, SymObject):
                if args[1] in o.attrs:
                    return True
                return o.cls is not None and self.find_method(
                    o, args[1]) is not None
            raise VCError('hasattr on %r' % (o,))
        if name == 'isinf':
            v = args[0]
            if isinstance(v, S.XR):
                return v.inf
            return False
        if name == 'any' or name == 'all':
            v = args[0]
            if hasattr(v, 'vc_any'):
                return v.vc_any() if name == 'any' else v.vc_all()
            if isinstance(v, _SymGen):
                return v.exists() if name == 'any' else v.forall()
            r = [S.to_bool(x) for x in v]
            return S.b_or(*r) if name == 'any' else S.b_and(*r)
        if name == 'c_array':
            dims = [int(a) for a in args]
            if len(dims) == 1:
                return [S.fresh('uninit') for _ in range(dims[0])]
            return [[S.fresh('uninit') for _ in range(dims[1])]
                    for _ in range(dims[0])]
        if name == 'memcpy':
            raise VCError('memcpy')
        if name == 'implies':
            return S.implies(args[0], args[1])
        if name == 'ite':
            return S.ite(S.to_bool(args[0]), args[1], args[2])
        raise VCError('builtin %s at %s' % (name, self.where(node)))


class Native(object):
    """A callable supplied by a contract (model of an external function):
    fn(ex, st, args, kwargs, node) -> value."""

    def __init__(self, fn, name='', bind=False):
        self.fn = fn
        self.name = name
        self.bind = bind


class SymSeq(object):
    """A sequence of unknown length whose element at (symbolic) index i is
    elem(i) -- used for lists of particle arrays, equations, ..."""

    def __init__(self, name, elem, length=None):
        self.name = name
        self.elem = elem
        self.length = length if length is not None else z3.Int(name + '_len')


class _SymGen(object):
    def __init__(self, j, length, body):
        self.j, self.length, self.body = j, length, body

    def exists(self):
        if not is_sym(self.body):
            return S.b_and(self.body, S.cmp('>', self.length, 0))
        return z3.Exists([self.j], z3.And(self.j >= 0, self.j < S.to_z3(
            self.length), self.body))

    def forall(self):
        if not is_sym(self.body):
            return S.b_or(self.body, S.cmp('<=', self.length, 0))
        return z3.ForAll([self.j], z3.Implies(z3.And(
            self.j >= 0, self.j < S.to_z3(self.length)), self.body))


class _LocalFunc(object):
    def __init__(self, module, fn, env):
        self.module, self.fn, self.env = module, fn, env


class _RaisedVal(object):
    def __init__(self, raised):
        self.raised = raised


class _RaiseSignal(Exception):
    def __init__(self, raised):
        self.raised = raised


class _NoMerge(Exception):
    pass


class _DeadPath(Exception):
    pass


class _Fork(Exception):
    def __init__(self, outcomes):
        self.outcomes = outcomes


class _Poison(object):
    def __init__(self, name):
        self.name = name


class _Range(object):
    def __init__(self, start, stop, step):
        self.start, self.stop, self.step = start, stop, step


class _Declared(object):
    """Result of compyle's declare(): type information only.  An uninitialised
    C scalar is an arbitrary value; 'matrix(n)' is n arbitrary reals."""

    def __init__(self, t, n):
        self.t, self.n = t, n

    def one(self):
        return self.scalar(self.t)

    @staticmethod
    def scalar(t):
        if isinstance(t, str) and t.startswith('matrix'):
            dims = t[t.index('(') + 1:t.rindex(')')]
            if ',' in dims.strip('() '):
                parts = [int(x) for x in dims.strip('() ').split(',') if
                         x.strip()]
            else:
                parts = [int(dims.strip('() '))]
            if len(parts) == 1:
                return [S.fresh('uninit') for _ in range(parts[0])]
            return [[S.fresh('uninit') for _ in range(parts[1])]
                    for _ in range(parts[0])]
        return _Poison('declared')


class _Builtin(object):
    def __init__(self, name):
        self.name = name


class _FuncRef(object):
    def __init__(self, module, fn):
        self.module, self.fn = module, fn


class _ClassRef(object):
    def __init__(self, module, node):
        self.module, self.node = module, node

    def _key(self):
        return (getattr(self.module, 'path', None),
                getattr(self.node, 'name', None))

    def __eq__(self, o):
        return isinstance(o, _ClassRef) and self._key() == o._key()

    def __ne__(self, o):
        return not self.__eq__(o)

    def __hash__(self):
        return hash(self._key())


class _BoundMethod(object):
    def __init__(self, obj, module, cls, fn):
        self.obj, self.module, self.cls, self.fn = obj, module, cls, fn


class _ListMethod(object):
    def __init__(self, lst, name):
        self.lst, self.name = lst, name

    def call(self, ex, args, kwargs, st, node):
        if self.name == 'append':
            self.lst.append(args[0])
            return None
        if self.name == 'extend':
            self.lst.extend(args[0])
            return None
        if self.name == 'pop':
            return self.lst.pop(*args)
        if self.name == 'copy':
            return list(self.lst)
        if self.name == 'index':
            return self.lst.index(args[0])
        if self.name == 'remove':
            if any(is_sym(x) for x in self.lst) or is_sym(args[0]):
                raise VCError('list.remove on symbolic values')
            self.lst.remove(args[0])
            return None
        if self.name == 'insert':
            self.lst.insert(args[0], args[1])
            return None
        if self.name == 'sort':
            self.lst.sort()
            return None
        raise VCError('list.%s' % self.name)


class _SetMethod(object):
    def __init__(self, s, name):
        self.s, self.name = s, name

    def call(self, ex, args, kwargs, st, node):
        n = self.name
        a0 = args[0] if args else None
        if a0 is not None and hasattr(a0, 'vc_setop'):
            # concrete set combined with a symbolic one
            return a0.vc_setop(n, self.s, True)
        if n in ('update', 'add', 'discard', 'remove', 'clear'):
            getattr(self.s, n)(*args)
            return None
        if n in ('union', 'difference', 'intersection', 'issubset',
                 'issuperset', 'copy', 'symmetric_difference'):
            return getattr(self.s, n)(*args)
        raise VCError('set.%s' % n)


class _DictMethod(object):
    def __init__(self, d, name):
        self.d, self.name = d, name

    def call(self, ex, args, kwargs, st, node):
        n = self.name
        if n == 'get':
            return self.d.get(args[0], args[1] if len(args) > 1 else None)
        if n == 'keys':
            return list(self.d.keys())
        if n == 'values':
            return list(self.d.values())
        if n == 'items':
            return [(k, v) for k, v in self.d.items()]
        if n == 'update':
            self.d.update(args[0])
            return None
        if n == 'copy':
            return dict(self.d)
        if n == 'pop':
            return self.d.pop(*args)
        if n == 'setdefault':
            return self.d.setdefault(*args)
        if n == 'has_key':
            return args[0] in self.d
        if n == 'clear':
            self.d.clear()
            return None
        raise VCError('dict.%s' % n)


class _StrMethod(object):
    def __init__(self, s, name):
        self.s, self.name = s, name

    def call(self, ex, args, kwargs, st, node):
        try:
            return getattr(self.s, self.name)(*args, **kwargs)
        except Exception:
            raise VCError('str.%s' % self.name)


class _Inf(object):
    def __repr__(self):
        return 'inf'


_INF = _Inf()

_CMP = {ast.Eq: '==', ast.NotEq: '!=', ast.Lt: '<', ast.LtE: '<=',
        ast.Gt: '>', ast.GtE: '>='}

_BUILTIN_NAMES = {'abs', 'min', 'max', 'float', 'int', 'len', 'range',
                  'print', 'bool', 'list', 'tuple', 'dict', 'sum',
                  'enumerate', 'zip', 'sorted', 'str', 'isinstance',
                  'hasattr', 'setattr', 'declare', 'printf', 'implies', 'ite',
                  'c_array', 'fabs', 'isinf', 'any', 'all', 'set',
                  'frozenset', 'getattr'}


def _isqrt(n):
    import math
    if n < 0:
        return None
    r = math.isqrt(n)
    return r if r * r == n else None


def _dotted(node):
    if isinstance(node, ast.Name):
        return node.id
    if isinstance(node, ast.Attribute):
        return _dotted(node.value) + '.' + node.attr
    return '?'


def _as_load(t):
    import copy
    n = copy.deepcopy(t)
    for e in ast.walk(n):
        if hasattr(e, 'ctx'):
            e.ctx = ast.Load()
    return n


def _named(seq):
    out = []
    for i, x in enumerate(seq):
        if isinstance(x, tuple):
            out.append(x)
        else:
            out.append(('inv%d' % i, x))
    return out
