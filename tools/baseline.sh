#!/bin/bash
# Runs the repository's pinned baseline suite (guard OFF: no PYSPH_VERIF in the
# environment) and compares the passing set with /root/.vp/BASELINE.json.
unset PYSPH_VERIF
OUT=$(mktemp /tmp/pysph_baseline.XXXXXX.xml)
cd /repo && /venv/bin/python -m pytest -ra -q -p no:cacheprovider --timeout=900 \
   --continue-on-collection-errors --junitxml="$OUT" >/dev/null 2>&1
/venv/bin/python - "$OUT" <<'PY'
import json, sys, xml.etree.ElementTree as ET
want = set(json.load(open('/root/.vp/BASELINE.json'))['stable_pass'])
got = set()
for tc in ET.parse(sys.argv[1]).getroot().iter('testcase'):
    if not any(c.tag in ('failure', 'error', 'skipped') for c in tc):
        cn, n = tc.get('classname'), tc.get('name')
        got.add('%s::%s' % (cn, n))
# BASELINE ids are module.Class::name (or module::name)
missing = sorted(w for w in want if w not in got)
print('baseline: %d/%d stable tests pass' % (len(want) - len(missing), len(want)))
for m in missing[:20]:
    print('  MISSING', m)
sys.exit(1 if missing else 0)
PY
rc=$?
rm -f "$OUT"
exit $rc
