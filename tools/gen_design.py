#!/usr/bin/env python3
"""Regenerates the machine-written part of DESIGN.md (between the markers
<!-- BEGIN GENERATED --> and <!-- END GENERATED -->) from what actually exists:
tools/manifest_src.py (claims), evidence/*.json (last run on /repo),
known_findings.json, seeded/*/meta.json."""
import glob
import json
import os
import re
import sys

V = os.path.dirname(os.path.dirname(os.path.abspath(__file__)))
sys.path.insert(0, os.path.join(V, 'tools'))
import manifest_src as M  # noqa: E402

props = {}
for l in open(os.path.join(V, 'properties.jsonl')):
    d = json.loads(l)
    props[d['id']] = d
kf = json.load(open(os.path.join(V, 'known_findings.json')))
findings = [x for k in kf if isinstance(kf[k], list) for x in kf[k]]
seeds = {}
for d in sorted(glob.glob(os.path.join(V, 'seeded', '*'))):
    try:
        meta = json.load(open(os.path.join(d, 'meta.json')))
    except Exception:
        continue
    head = ''
    try:
        for l in open(os.path.join(d, 'notes.md')):
            if l.strip():
                head = l.strip().lstrip('# ').strip()
                break
    except Exception:
        pass
    seeds.setdefault(meta['property'], []).append((os.path.basename(d), head,
                                                   meta))
out = []
w = out.append
checks = {c['id']: c for c in M.CHECKS}
na = {x['property_id']: x['reason'] for x in M.NOT_APPLICABLE}
w('### 3.0 Status table (generated from the last run on /repo)\n')
w('| id | claim | obligations (all discharged) | functions under contract '
  '| bounded stand-ins | open findings | fixed | quick s | seeds caught |')
w('|----|-------|---|---|---|---|---|---|---|')
for pid in sorted(props):
    if pid in na:
        w('| %s | **not applicable** | - | - | - | - | - | - | - |' % pid)
        continue
    ev = json.load(open(os.path.join(V, 'evidence', pid + '.json')))
    cov = ev['coverage']
    fo = [f for f in findings if f['property'] == pid and
          f['status'] == 'open']
    ff = [f for f in findings if f['property'] == pid and
          f['status'] == 'fixed']
    ss = seeds.get(pid, [])
    w('| %s | proof (partial/slice as described) | %d | %d | %d | %d | %d | '
      '%.0f | %d/%d |' % (
          pid, cov['obligations'], len(cov['functions_under_contract']),
          len(cov['bounded']), len(fo), len(ff), ev['wall_s'],
          sum(1 for s in ss if s[2].get('detected')), len(ss)))
w('')
for pid in sorted(props):
    p = props[pid]
    w('### %s - %s\n' % (pid, p['title']))
    if pid in na:
        w('**Not applicable.** %s\n' % na[pid])
        continue
    c = checks[pid]
    ev = json.load(open(os.path.join(V, 'evidence', pid + '.json')))
    cov = ev['coverage']
    w('**What the check decides.** %s\n' % c['text'])
    w('**Left unverified / assumed.** %s\n' % c['note'])
    files = sorted(set(f['file'].replace('repo/', '') for f in
                       cov['functions_under_contract']))
    w('**Evidence of the last run on /repo.** %d obligations, all discharged '
      '(%d solver queries, %.0f s wall); %d functions under contract in %s; '
      '%d bounded stand-in entries (never counted as proved); vacuity guards: '
      '%s.\n' % (cov['obligations'], cov['queries'], ev['wall_s'],
                 len(cov['functions_under_contract']),
                 ', '.join('`%s`' % f for f in files[:8]) +
                 (' and %d more' % (len(files) - 8) if len(files) > 8 else ''),
                 len(cov['bounded']),
                 ', '.join('%s=%s' % (g['name'], g['verdict'])
                           for g in cov['vacuity_guards'][:4]) or 'canary'))
    mine = [f for f in findings if f['property'] == pid]
    if mine:
        w('**Findings (known_findings.json).**\n')
        for f in mine:
            key = f.get('obligation') or f.get('obligation_re')
            if f['status'] == 'fixed':
                w('* fixed in /repo `%s` - obligation `%s`: %s' % (
                    f.get('commit'), key, f['what'].replace(
                        'fixed: property=%s %s ' % (pid, f.get('commit')),
                        '')))
            else:
                w('* OPEN - obligation `%s`: %s *Not fixed because:* %s' % (
                    key, f['what'], f.get('why_not_fixed', 'see text')))
        w('')
    ss = seeds.get(pid, [])
    if ss:
        w('**Seeded changes (independent sub-agents, kept under '
          '`seeded/`).**\n')
        for name, head, meta in ss:
            w('* `%s` %s - %s by: %s' % (
                name, re.sub(r'^Seed\s+\S+\s*[-:#/0-9 ]*', '', head),
                'caught' if meta.get('detected') else 'MISSED',
                ', '.join('`%s`' % o for o in
                          meta.get('failing_obligations', [])[:4])))
        w('')
text = '\n'.join(out)
path = os.path.join(V, 'DESIGN.md')
s = open(path).read()
b, e = '<!-- BEGIN GENERATED -->', '<!-- END GENERATED -->'
i, j = s.index(b), s.index(e)
s = s[:i + len(b)] + '\n' + text + '\n' + s[j:]
open(path, 'w').write(s)
print('DESIGN.md section 3 regenerated (%d lines)' % len(out))
