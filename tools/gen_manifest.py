#!/usr/bin/env python3
"""Regenerates MANIFEST.json from tools/manifest_src.py (single source)."""
import json, os, sys
here = os.path.dirname(os.path.abspath(__file__))
sys.path.insert(0, here)
import manifest_src as M
checks = []
for c in M.CHECKS:
    pid = c['id']
    checks.append(dict(
        property_id=pid,
        quick_cmd='./check %s --tier quick' % pid,
        thorough_cmd='./check %s --tier thorough' % pid,
        evidence_file='/verif/evidence/%s.json' % pid,
        replay_cmd_template='./check %s --replay {path}' % pid,
        engine='pyvc',
        level_claimed=dict(category='proof', text=c['text'],
                           design_ref=c.get('design_ref', 'DESIGN.md section 3, ' + pid)),
        level_note=c['note'],
        technique=c.get('technique', 'contract-based deductive verification: '
                        'VCs generated from the real source by pyvc, discharged by NF/z3/cvc5')))
man = dict(
    version=1,
    setup_cmd='python3-vt -c "import z3, sympy; print(\'pyvc tooling ok\')"',
    hooks=dict(guard='PYSPH_VERIF', enable='no hooks: /repo is verified as it is (contracts live in /verif/contracts)',
               baseline_off_cmd='/verif/tools/baseline.sh', source_commits=[], add_only=True),
    engines=[dict(name='pyvc', path='/verif/pyvc', serves_properties=[c['id'] for c in M.CHECKS],
                  kind_free_text='verification-condition generator over the Python ast / mechanically extracted Cython of /repo, sidecar contracts in /verif/contracts, back ends: exact normal form (sympy), z3, cvc5')],
    checks=checks,
    notes=M.NOTES,
    not_applicable=M.NOT_APPLICABLE)
with open(os.path.join(here, '..', 'MANIFEST.json'), 'w') as f:
    json.dump(man, f, indent=1)
print('MANIFEST.json: %d checks, %d not applicable' % (len(checks), len(M.NOT_APPLICABLE)))
