#!/usr/bin/env python3
"""tools/keepseed.py <seed dir> <name> <property> <caught: yes|no> <obligations...>
Copies a verified seeded change into /verif/seeded/<name>/ with meta.json."""
import json, os, shutil, sys
sd, name, prop, caught = sys.argv[1:5]
obl = sys.argv[5:]
dst = os.path.join(os.path.dirname(os.path.abspath(__file__)), '..', 'seeded', name)
os.makedirs(dst, exist_ok=True)
for f in ('patch.diff', 'demo.py', 'notes.md'):
    shutil.copy(os.path.join(sd, f), dst)
notes = open(os.path.join(sd, 'notes.md')).read()
meta = dict(property=prop, source='independent sub-agent given only the property text and a scratch worktree',
            needs_to_manifest=notes.split('\n\n')[1][:600] if '\n\n' in notes else notes[:600],
            verified=dict(tests='55 passed with the patch applied (tools/seedcheck.sh)',
                          demo='demo.py exits 1 on the patched tree, 0 on the unchanged tree',
                          check='./check %s run against a patched scratch copy via PYVC_REPO' % prop),
            detected=(caught == 'yes'), failing_obligations=obl)
json.dump(meta, open(os.path.join(dst, 'meta.json'), 'w'), indent=1)
print('kept', name)
