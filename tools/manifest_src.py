NOTES = ("Contract-based deductive verification with a VC generator written for this task (pyvc). "
         "Every check re-reads /repo's working tree. Exit 0 held / 1 VIOLATION / 2 undecided / 3 checker crash. "
         "Genuine defects: known_findings.json (open = KNOWN-FINDING lines, fixed = fix: commits in /repo).")

CHECKS = [
 dict(id='C08',
      text="Proof over the reals, for all h>0, rij>=0, xij: every method of the 10 kernel classes x documented dims is "
           "symbolically executed from kernels.py; support, sign, knot ordering, dwdq = h dW/dr, gradient_h = dW/dh "
           "(symbolic derivative of the extracted kernel expression, exact normal form), gradient against dwdq's "
           "contract, exact normalisation integrals (sympy), and path-by-path equality with the mechanically extracted "
           "c_kernels.pyx twins and wrappers. Full claim for C08 up to rounding. get_compiled_kernel builds the compiled class and wrapper from the attributes of the kernel object it is given, on every call.",
      note="float = R; exp/sqrt axiomatised; glue lemma 'piecewise derivative<=0 + ordered knots => non-increasing' is "
           "mathematics not code; sympy integration trusted; compiled twins compared as source text (Cython/gcc trusted); "
           "open finding: absolute 1e-12 coincidence band"),
 dict(id='C15',
      text="Proof over the reals for all admissible states: relational (two-run) contracts on the real text of "
           "riemann_solver.py -- reflection symmetry for 9 of 11 solvers (hllc for contact speed != 0; ducowicz not "
           "proved) and the dispatch, equal-state clause for all 11, Galilean invariance for van_leer and exact, scaling "
           "for van_leer (floor inactive), success => p*>0 / tolerance / u* formula, vacuum => failure. Iterative "
           "solvers are cut at the loop head with relational invariants, so niter is unbounded. Run 2 is aligned with "
           "run 1 by proved equalities (pyvc/relational.py). exact: on success p is the Newton iterate of pold for the solver's own pressure function. prefun_exact: both branches are the reference pressure function, vanish at p = p_k, and result[1] is d/dp of result[0] (symbolic differentiation of the executed value, exact NF prover) -- exact's stopping rule on the Newton step bounds the residual only with the true slope.",
      note="float = R; sqrt/pow axiomatised; divisions and pow bases are hypotheses of the path ('when the result is "
           "finite'); NOT verified and not claimed: ducowicz reflection (solver time-out), exact scaling, hllc at "
           "contact speed exactly 0; open findings: van_leer absolute floor, exact niter-1 convergence, ducowicz tie"),
]

CHECKS += [
 dict(id='C13',
      text="Proof over real entries for every size the property names reached by the tier (quick n<=4, thorough n<=6; nb,na "
           "1..3): identity/dot/mat_mult/mat_vec_mult/augmented_matrix equal their definitions cell by cell with frames; "
           "gj_solve soundness by a ghost-solution cut-point invariant checked after every row operation (result = X on "
           "every path returning 0 without a zero diagonal; a back-substitution row may be left un-normalised only when its pivot is exactly 0, and status 1 out of back substitution requires a zero pivot of the triangular matrix); completeness witnesses executed exactly; linalg3.pyx det, "
           "transform*, zero_matrix_case and eigen_decomposition (modular, against the assumed tred2+tql2 contract). tql2 (QL iteration) is not verified functionally, but its safety contract is proved for every symmetric tridiagonal input and any number of sweeps: the deflation scan stops at the sentinel e[n-1]=0, a sweep starts only with e[l]!=0, p+r!=0, e[n-1]=0 is an invariant of the sweep loop. tred2 (Householder) is proved for the five of its nine paths that have at most one active reflection (orthogonality, A V = V T, e[0]=0); the four two-reflection paths and the tql2 iteration are covered by a bounded native stand-in on 36 matrices. Call sites ('callsites'): every call of the helpers in crksph.py, kernel_correction.py, density_correction.py and interpolator.py passes one argument per parameter, sizes known for every dimension 1..3, and local declare('matrix(K)') buffers at least as long as the helper's precondition (defect repaired: 8da6ade, MLSFirstOrder3D passed its buffer as nmax). 'systems': the augmented matrices kernel_correction.py builds by hand are [M | b] with M as its writer stores it (row-major, L_a = M^-1) for dim 1..3; DWIJ becomes the solution or is left alone.",
      note="float = R; sizes enumerated (the property's own finite range); NOT verified: tred2, tql2 (QL convergence), "
           "get_eigenvalues -> the eigen clause holds only modulo their assumed contract; gj_solve G3 conditional on no "
           "exactly-zero diagonal in back substitution; open findings: no row exchange, absolute pivot tolerance"),
]

CHECKS += [
 dict(id='C09',
      text="Proof over the reals for every pair of particles: relational contract on the real loop() text of the 17 listed "
           "momentum equations (pair (a,b) vs (b,a) on two-cell arrays with distinct indices): m_a da_a + m_b da_b = 0, "
           "XIJ x (m_a da_a) = 0 for the central-force terms, frame (no store to a source array or a foreign cell); the 3 "
           "summation-density loops add a non-negative term and W(0,h) > 0 for every kernel. The pair-symbol formulas (C02) and the kernel-gradient contracts (C08, one dim per kernel) this proof assumes are re-proved in this check (dep.*). The contract is on the increment of au/av/aw over an arbitrary accumulator, so assignment instead of accumulation fails; lemmas/PairSum.lean (thorough tier) replaces the assumed double-sum lemma.",
      note="float = R; kernel contracts of C08 and symbol formulas of C02 are assumed here (proved there); equation "
           "parameters arbitrary but shared; array-level constants wdeltap,n equal on both arrays; the summation over all "
           "pairs (antisymmetric terms over a symmetric neighbour relation vanish) is a mathematical glue lemma, not "
           "machine-checked; neighbour symmetry is C01"),
]

CHECKS += [
 dict(id='C19',
      text="Proof for particle-array lists of ANY length: the loops of _get_dt_adapt_factors, _get_explicit_dt_adapt and "
           "compute_h_minimum are cut with quantified prefix invariants (not larger than any array seen AND attained by "
           "one), compute_time_step is verified modularly against those contracts for fixed_h on and off (formula, None "
           "case, never exceeds cfl*hmin/max of any array), set_fixed_h and Solver._compute_timestep (fixed step kept on "
           "None). Two genuine defects found by these obligations were repaired (fix: commits 49673ab, 852cb8d). Solver._get_timestep's contract (C10: every iteration uses the freshly computed step, damped and clipped) is re-proved here (dep.c10.timestep; obligations that are open findings of C10 are left to C10). The flag cached by _get_explicit_dt_adapt for all later steps depends only on which arrays DECLARE dt_adapt, not on their particle counts at the first step.",
      note="float = R; numpy/cyarray reductions enter as ghost functions per array (max_c(j), min_adapt(j), hmin(j); "
           "hmin of an empty carray is 0); h.minimum fresh (history assumption); CPU backend, not in_parallel; "
           "quantifier instantiation by z3"),
]

CHECKS += [
 dict(id='C10',
      text="Proof over the reals for any dt, tf, pfreq, n_damp, max_steps, sorted requested times (vector of unknown "
           "length with quantified numpy semantics) and ANY positive adaptive proposals: contracts of _damp_timestep, "
           "_get_solver_data, _get_timestep (landing on tf, restoring a pending shortened step, recorded dt), "
           "_dump_output_if_needed (dump decision, frame, only shortens, never past a requested time), and the solve "
           "loop cut with an inductive invariant (t<=tf, dt>0, t+dt<=tf; pre/step/post once per pass in order, t "
           "strictly increasing, exit => tf reached or max_steps, output first and last). Four genuine defects are open "
           "known findings. Solver._compute_timestep (C19) is re-proved here (dep.c19.*). The integrator's step contracts (C19 explicit/step: None or strictly positive) are re-proved here. The loop never runs more than max_steps iterations (invariant count <= max_steps).",
      note="float = R (epsilon tests exact); frames of integrator/callbacks/dump_output assumed; sin axiom for the "
           "damping factor; termination only via the stated exit condition (arbitrary positive steps need not sum to tf "
           "without max_steps); 'never past' is proved for requested times pairwise > 2 eps apart and not exactly eps "
           "from t"),
]

CHECKS += [
 dict(id='C20',
      text="Proof for ALL property sets: the real check_equation_array_properties is executed symbolically for every one "
           "of the 309 shipped Equation subclasses (found on every run) against particle arrays whose property sets are "
           "symbolic (one membership boolean per relevant name + 'any other'), dest also listed as a source: a missing "
           "explicit d_/s_ name, a missing name needed through a precomputed symbol (closure computed independently from "
           "precomputed_symbols()), a misspelt dest/source => RuntimeError naming it; the same for every stage method of "
           "the shipped IntegratorStep subclasses on two arrays; the check runs before MegaGroup/code generation. The "
           "implicit clause failed on the pinned tree and was repaired (fix: 7fb24fa). Group.get_array_names (union over equations and precomputed code blocks, cache) is proved; the closure of the precomputed symbols is C02's bounded check, re-run here (dep.c02.*). AccelerationEval.__init__ is executed on a group tree with sub-groups for every back end (every equation checked before the first MegaGroup); the checker is stateless across same-named classes. The needed-name sets are modelled as shared mutable objects (an in-place `-=` reaches the next array's check); a stepper argument spelt s_<name> is a need of the stepper's own array. Equations without sources (sources=None) still have their destination checked; get_arrays_used_in_equation unites the arrays of all five per-particle methods.",
      note="getfullargspec = AST parameter names (MRO resolved); Group.get_array_names assumed to return the precomputed "
           "closure (validated natively for all 309 classes once, checked in C02); message contents checked only for the "
           "array-name and stepper-class cases; generated code itself not examined"),
]

CHECKS += [
 dict(id='C14',
      text="Slice of C14 that contracts decide, proved for all values: for the six interpolation equations the loop adds "
           "exactly the documented term per neighbour (inductive step of the defining sums), initialize zeroes every "
           "accumulator the loop uses and only the destination's block, post_loop divides iff the denominator > 1e-12; "
           "Shepard lemmas as relational invariants (constant reproduced, result within [min,max] of contributing values, "
           "0 without neighbours); order1: b = M u is invariant for any linear field and post_loop hands (M, b, dim+1) to "
           "augmented_matrix/gj_solve; traces of Interpolator.interpolate (every source's temp_prop written, 0.0 when the "
           "property is absent; prop[comp::4]), update_particle_arrays and update. One defect repaired (fix: abc38e9). augmented_matrix / gj_solve for n = 4 (C13) are re-proved here (dep.c13.*). Re-proved here: the Python-side evaluator forwards set_nnps/update_particle_arrays (C03 forward) and the array wrappers re-bind (C02 wrapper).",
      note="float = R; group order (C03), neighbours (C01), compiled = Python (C02) and gj_solve soundness (C13) assumed; "
           "the induction over the neighbour list from the per-neighbour step is the standard loop induction, not "
           "machine-checked here; SPHEvaluator/compiled evaluation not examined"),
]

CHECKS += [
 dict(id='C02',
      text="Slice: every precomputed pair symbol equals its documented formula -- the code literal of the real "
           "precomputed_symbols() with the real _set_kernel applied (symbolically executed), run with the symbols it "
           "reads bound to their documented values and the kernel methods as uninterpreted functions (right method, right "
           "h, d_/s_ not mixed, nothing else assigned); _set_kernel leaves no placeholder. Closure and order of "
           "_setup_precomputed/sort_precomputed: bounded exhaustive (1620 sets), labelled bounded, not counted. Kernel "
           "twins are C08's. The ordering/iteration/range/determinism contracts of C03 that 'in the documented order, over "
           "the same neighbours' rests on are re-proved in this check (obligations dep.c03.*). CythonGroup._get_code / get_py_initialize_code: every method is called on its own equation object with its parameters passed by name in order, reduce and py_initialize get (dst.array, t, dt). ParticleArrayWrapper.set_array (static Cython of the template) binds array, name, every property and every constant, also on a second call; __init__ and update_particle_arrays go through it. Two equations with py_initialize in one group are both called. 'objects': the k-th instance of an equation class gets its own variable name, declaration and constructor call from ITS attributes (equations[i] with i its position). Which arrays are bound per source/destination (get_arrays_used_in_equation over all five methods, Group.get_array_names: C20) is re-proved here.",
      note="the transpiler (compyle), mako glue, Cython and gcc are external: nothing is proved about the transpiled "
           "text, so 'values left in every property equal executing the Python methods' is claimed only for the symbol "
           "table and kernel substitution"),
 dict(id='C03',
      text="Slice: proved -- the iteration skeleton emitted by the real get_iteration_init/check (literals generalised to "
           "MIN, MAX; arbitrary convergence predicate) stops at exactly the first pass k >= MIN with converged or k = MAX, "
           "1 <= k <= MAX, counter reset; destination range selection with SYMBOLIC integer start/stop indices (printed as "
           "opaque markers, so 0 and negatives are covered), property names and None, both real flags; "
           "MegaGroup._make_data never iterates over a set and lays destinations/sources out in user order (determinism). "
           "Bounded (labelled, not counted): converged-condition join, MegaGroup._make_data ordering (7380 equation "
           "lists), emission order of the real do_group for all 2^10 guard valuations x 1-2 dests x 0-2 sources, nesting of "
           "the mega-group loop of compute() (388 group trees: every block under exactly its own condition(s) and loop). "
           "One defect repaired (fix: a804f4e). _compute_group_map and get_condition/pre/post_call: callbacks are emitted on the group's own self.groups[i](.data[j]) entry even when names coincide. Python-side AccelerationEval.compute/set_nnps/update_particle_arrays/set_compiled_object forward the same arguments to the compiled evaluator ('forward').",
      note="Cython semantics of the emitted lines and compyle get_parallel_range assumed; the meaning of emitted calls is "
           "not examined; bounded parts are enumerations of the real functions with stated bounds"),
]

CHECKS += [
 dict(id='C04',
      text="Slice: the four static Cython methods of the integrator template (step, do_post_stage, compute_accelerations, "
           "update_domain; cut from the .mako text and extracted mechanically) satisfy their contracts (orig_t/t/dt "
           "book-keeping, one_timestep and the callback called exactly once with (orig_t+stage_dt, dt, stage), "
           "delegation); Integrator.compute_accelerations refreshes pm then nnps strictly before compute iff update_nnps; "
           "trace contract of one_timestep of all 15 shipped integrators (stages increasing, one do_post_stage(c*dt,k) "
           "per stage, 0<c<=1, last c=1); write-frame of every stepper method. Bounded: get_timestep_code = body of "
           "one_timestep (15 classes), stage-wrapper emission of the real template (real=True, py_stage before loop). The emitters that wire steppers into the compiled integrator (get_stepper_defs/init/loop, get_array_setup, get_py_stage_code, get_stepper_method_wrapper_names, has_stepper_loop) are executed on two steppers of different classes and compared with the documented text. Bounded: get_timestep_code also on three synthetic integrators with trailing comments, '#' inside a string, nested blocks and multi-line statements. Integrator.step/set_nnps/set_parallel_manager/set_post_stage_callback/set_compiled_object/set_acceleration_evals/initial_acceleration forward exactly their arguments ('forward').",
      note="compyle/Cython/mako external; user-defined integrators only via the same checkers; frames do not follow "
           "helper calls"),
 dict(id='C05',
      text="Slice: write-frame contract for every initialize/initialize_pair/loop/loop_all/post_loop of all 309 shipped "
           "equations (1827 stores, each proved by z3 to address s*d_idx+r, 0<=r<s, or listed as a known scatter write); "
           "Solver.reorder_particles re-orders every array then refreshes the NNPS and solve() does so before the initial "
           "accelerations; every CPU --nnps branch passes cache and sort_gids=options.sort_gids. Re-proved here (dep.*): deterministic layout of the generated loops (C03), the sorted-neighbour segment and the sort_gids flag of every class (C01), spatially_order_particles (C17). New rule 'refresh': in every shipped one_timestep an evaluation with update_nnps=False is reached only when no paired stepper stage has written positions since the last refresh (schedule run twice); emission order (C03) and integrator schedules (C04) re-proved here. Per-thread scratch ('scratch'): every list-valued context variable of a group, named in a loop signature or not, gets one aligned slot per thread in the declarations and is pointed at the running thread's slot first thing in the parallel block (CythonGroup.get_variable_array_setup/_get_variable_decl executed symbolically + template text). Neighbour cache (dep.c01.cache): _find_neighbors records the finding thread and its segment, get_neighbors_raw returns that thread's segment whichever thread asks. Also re-proved: C01 cell size over all arrays, NNPS.update, octree root and index-space contracts.",
      note="OpenMP ownership of d_idx assumed; whole-run equality across algorithms/threads, bit-reproducibility and float "
           "summation order are NOT decided (no contract expresses them); races have no deterministic replay; 18 scatter "
           "stores in 5 places are open known findings"),
 dict(id='C16',
      text="Proof over the reals of the zone-id partition of IOEvaluate.loop (any normal, point, length; tie point separate), "
           "of 'a recycled inlet particle is inside the zone again' (|n|=1), of the mirror-outlet reflection; trace "
           "contracts (symbolic index sets) of InletBase.update, hybrid Inlet.update, OutletBase.update incl. inactive "
           "stages: extract I={ioid==0} to the fluid then shift exactly x/y/z[I] by +-L*n on inlet/ghost; extract "
           "O={ioid==1} to the outlet THEN remove the same O from the fluid, remove {ioid==2} from the outlet; evaluator "
           "wiring (zone array maxdist=length, fluid array unbounded, real=False). The ParticleArray contracts the hand-over relies on (extract into an array that may hold ghosts, remove, align, add_particles: C06) are re-proved in this check (dep.c06.*). Zone length: _update_inlet_outlet_info gives |n.(extent+dx)|, one layer has length dx. Mirror Outlet.update is executed symbolically with and without a ghost array and for any number of leaving particles: the leaving set is removed from the fluid on every path, the ghost copy is the reflected position with negated u. Every family's SimpleInletOutlet.get_stepper (hybrid, mirror, characteristic, donothing, mod_donothing) sets active_stages=[2] on the branch that hands out zone steppers for any number (0..2 enumerated) of inlets/outlets/ghost zones, and gives every inlet an inlet stepper and every outlet an outlet stepper. A destination array that is empty is still the destination (the truth value of an instance goes through __bool__/__len__ of its class in the executor). 'setup': get_inlet_outlet builds each zone's update object on (zone array, fluid array, zone info, kernel, dim, active_stages, paired ghost or None) after refreshing the zone record from the zone's own array; InletBase/OutletBase constructors store every argument under its name and initialize() reads reference point, normal and length from the zone record.",
      note="io_eval.evaluate sets ioid per the IOEvaluate contract (compiled evaluation assumed); ParticleArray "
           "extract/remove/add contracts are C06's; count conservation follows from them, not re-proved here; "
           "get_stepper zone lists are enumerated up to length 2 (loop bodies do not depend on the count)"),
]

CHECKS += [
 dict(id='C06',
      text="Partial, on the mechanically extracted particle_array.pyx: align_particles' index loop proved for arrays of any "
           "length with a quantified invariant (injective into [0,n), Local first, num_real = #Local) and the same index "
           "array + own stride passed to every property; remove_particles sorts the index list whatever its type and "
           "hands the same sorted array, flag and own stride to every property; remove_tagged_particles collects exactly "
           "the matching indices in order; extend resizes to (n+k)*stride and fills defaults from n*stride; "
           "extract_particles copies whole rows to the end of the destination; remove_property forgets every per-property "
           "record (array, default, stride, output list); resize walks every property with its own stride; add_particles "
           "extends given properties with the given data and every other one to (n+k)*stride with its default from n*stride; "
           "append_parray extends by the other array's count, copies common properties to the tail with the destination's "
           "stride and creates missing ones with the source's type/default/stride; add_property for every combination of "
           "{array empty or not} x {data or not} x {new or existing name}: default and stride records, length of the new "
           "array, and -- when the first particles arrive with the data -- every other property grown to n*its stride and "
           "filled with its default. One defect repaired (fix: 86a774b). copy_over_properties and set_to_zero act on every particle and whole stride blocks (loop invariants). append_parray leaves the receiver's own constants untouched and takes the source's other constants only on request. Pickling: __reduce__ saves name, type, data, default and stride of every property and every constant; __setstate__ starts from empty records and hands every saved record unchanged to add_property / add_constant, then counts the Local particles. Record keeping ('misc'): get_number_of_particles, get_carray, add_constant, set_tag/set_pid (quantified loop invariants), empty_clone/ensure_properties (every property with its own type, default, stride), copy_properties (destination's stride), get_property_arrays (n*stride). 'arrtypes': typed locals bound to the built-in tag/pid/gid arrays are declared with the class clear() creates them with (defect repaired: 4a7d982, set_tag always raised TypeError).",
      note="cyarray (resize/remove/c_align_array/copy_values/extend) contracts and numpy slice assignment assumed; Cython types "
           "dropped by the extraction; NOT verified: add_property's dtype conversions and its GPU branch, get/set, clone, "
           "copy_properties -> the record-list equivalence is claimed only for the operations listed"),
 dict(id='C07',
      text="Partial, on the extracted nnps_base.pyx: box wrap proved for any number of particles (quantified invariant: "
           "every coordinate moved by 0 or +-T, back inside when it had left by < T, untouched otherwise); the three "
           "array helper loops; every scan loop appends i iff the particle is within the ghost layer of that face (and "
           "the mirror translation -2(x-min)/2(max-x) in lockstep); trace contract of the periodic and mirror ghost "
           "construction for two arrays (documented order, images shifted along the right axis from the old end of the "
           "buffer, corner passes over the ghost buffer, matching velocity component negated, lists filled by this "
           "array's scan); update() removes old ghosts first. One defect repaired (fix: a11db0a). Also: every scan covers the whole column it reads (ghosts of earlier passes included), every ghost buffer is emptied exactly once before images are collected in it, and the first-update branch (buffers cloned) is checked separately. Construction ('construct'): DomainManager.__init__ forwards every argument under its own name to the manager it creates, CPUDomainManager.__init__ forwards every one to DomainManagerBase.__init__, which stores each in the attribute of the same name (translate = max - min); the facade's methods forward to the manager. For every combination of the axis flags each scan covers the whole column it reads (ghost-buffer length modelled per program point: empty until something is copied into it). The ParticleArray record-keeping contracts (ensure_properties / empty_clone keep type, default, stride: C06 misc) are re-proved here.",
      note="ParticleArray operations assumed (C06); the set lemma 'every face/edge/corner image exactly once' is "
           "mathematics and only pre-screened; GPU/MPI paths not examined; replay of violations builds the extension "
           "from the working tree (about 1 min)"),
 dict(id='C17',
      text="Partial, on the extracted Cython: LinkedListNNPS._refresh leaves every head/next entry UINT_MAX (quantified "
           "loop invariants, any number of cells/particles); one _bin step is a push-front of particle i on the list of "
           "its own cell with head/next otherwise unchanged and the loop runs over all given indices; "
           "get_spatially_ordered_indices visits cells 0..n_cells-1, starts at head[c], appends the current node and "
           "follows next[] to UINT_MAX; the octree / z-order / stratified-SFC versions copy exactly the first "
           "num_particles pids of the REQUESTED array; spatially_order_particles passes the same index list and each "
           "property's own stride to c_align_array of every property and re-aligns the array afterwards. One defect "
           "repaired (fix: 994cb80, ghosts interleaved with real particles). Solver.reorder_particles (re-order every array, then update() whatever the domain: C05) is re-proved here (dep.c05.*); the search object's is_periodic flag is arbitrary. lemmas/PushFront.lean (thorough tier) proves that the head/next chains hold exactly the binned particles of their cell, each once. Re-proved here: the sorted-key classes re-sort on every refill (C01 sortkeys) and every array is binned whole (C01 update). Also re-proved: the CellIndexing key widths (C01 cellkey) and the octree index spaces (C01 pidspace).",
      note="glue lemma 'push-front lists built from empty lists are a partition, so the walk yields a permutation' and "
           "std::sort permuting the pid arrays are mathematics/assumed, not machine-checked; cyarray c_align_array and "
           "ParticleArray.align_particles are assumed (C06); 'queries after the following update are exact' is C01's "
           "subject; replay of violations builds the extensions from the working tree (about 40 s)"),
 dict(id='C01',
      text="Partial. Deductive (all inputs, doubles as reals): cell arithmetic of nnps_base.pxd (real_to_int = floor, "
           "get_valid_cell_index spec, flatten injective); stencil lemma; cell size >= radius_scale*h of every particle; "
           "_compute_bounds box; LinkedListNNPS: every particle's flattened cell id is inside the allocated heads; NNPS.update "
           "rebuilds every array with indices 0..n-1 and invalidates every cache entry; push-front lists (shared with C17); "
           "LinkedList query visits the 27 distinct stencil cells, walks each list from its head, appends a node iff it "
           "passes the distance test; glue lemma: every pair that must be found lies in a visited valid cell; for ALL "
           "twelve classes every appended index passed the acceptance test on that index (abstracting executor); "
           "get_nearest_particles runs the query in the requested (src,dst) context; every set_context selects the "
           "structures of the requested pair; _refresh keeps the loaded context valid; z-order neighbour-box rows. "
           "BOUNDED stand-in (never counted as proved): extensions built from the working tree, 12 classes x 7 (quick) / "
           "11 (thorough) distributions x dims 1-3 x cache on/off x knob variants x 2 update rounds against the definition. "
           "Two defects repaired (fix: 6eae934, 613605a); open findings in the z-order / stratified-SFC / compressed-octree "
           "classes listed in known_findings.json. sort_gids: what every class hands to _sort_neighbors is exactly the segment appended by this call, and every constructor records the flag (one more defect repaired: 9af8932). NeighborCache ('cache'): _find_neighbors run by thread t records _pid_to_tid[d]=t, the appended segment of _neighbors[t] and _cached[d]=1 and touches no other entry; get_neighbors_raw(d) run by any thread returns exactly (_neighbors[_pid_to_tid[d]], that segment), calling _find_neighbors first iff the entry is not cached (caller proved against the callee's contract); replay: cache filled by the OpenMP loop under 1 and 8 threads, read from the main thread. CellIndexingNNPS key ('cellkey', machine integers: pyvc/cint.py on the typed extraction): the four decoders invert _get_key for all field widths with I+J+K < width of the key type, with no undefined shift; _bin/_refresh choose widths that hold every particle and cell index; the four fields fit the key type for every array of < 2^31 particles on <= 2047 cells per axis (defect repaired: 032fd62, 32-bit keys overflowed at 65536 particles on 256 x 256 cells). Octree root ('octroot'): _calculate_domain's cube contains every particle, the root hmax is the largest h, and both tree classes create the root from these values. Index spaces ('pidspace'): in every octree builder / query loop that translates a position through an index container, particle data is indexed by the translated id (serial and OpenMP builders; replay under 1, 2, 8 threads). 'sortkeys': in the three sorted-key classes the sort of the key array is an unconditional statement between filling and searching the keys. NNPS.update bins the TOTAL number of particles of every array (ghosts included; oracle scenario with ghost/remote particles added). 'eshreach': ExtendedSpatialHashNNPS._neighbor_boxes keeps an occupied sub-cell iff it is within ceil(radius_scale*max(h_query, cell h_max)/h_sub) sub-cells along every axis, plus the glue lemma that no sub-cell holding a true neighbour is farther. 'boxes27': SpatialHashNNPS/CellIndexingNNPS._neighbor_boxes emit exactly the adjacent cells with non-negative indices, each once, for every cell index. 'sortnbrs': NNPS._sort_neighbors leaves a permutation of the local indices of the segment, in index order without gids and in gid order with them (segments of length 0..3, std::sort assumed). 'sentinel': z-order/SFC lookup results are tested against the empty marker -1 only. 'shreach': per level, the layers StratifiedHashNNPS searches times the level's cell size cover max(radius_scale*h, hmax_level).",
      note="completeness, duplicate-freedom and index validity of the ten non-linked-list classes are only covered by the "
           "bounded stand-in (C++ hash tables, sorted key arrays and octrees are outside the VC generator); threads filling "
           "the cache are not modelled; pairs at exactly the cut-off are left open as the property says; 'the lists hold "
           "exactly the binned particles' is a glue lemma; the check builds the extensions once per run (about 40 s of the "
           "100 s)"),
]

# round 7 additions (appended to the texts above)
ROUND7 = {
 'C01': " 'stalecount': after particles are added, update() re-reads the real count of every array before binning (native replay ADDED).",
 'C02': " 'compiler': SPHCompiler.compile hands every object it was given (evaluators, integrator) the module compiled from its own generated source, and a second call compiles nothing.",
 'C03': " Sub-groups keep their own real/update_nnps/iterate options when the parent group carries different ones.",
 'C06': " clear() restores the default particle tag together with the other default properties. BOUNDED stand-in (never counted as proved): random sequences of public calls on the built extension side by side with the property's record-list model (contracts/c06_model_walk.py; 150 sequences x 80 calls quick, 3000 x 150 thorough).",
 'C07': " Mirror construction as order constraints: each corner index list is used before the image buffer is appended to again (append_parray re-aligns; defect repaired: 25b2043, mixed periodic/mirror domains), each corner scan sees exactly the images of the earlier axes; native replay over every mix of open/periodic/mirror axes in 3D. BOUNDED stand-in (never counted as proved): the nine native ghost scenarios run on the built extensions on every run, not only when an obligation fails.",
 'C08': " 'precision': every floating declaration in the kernel classes and the compiled template is double.",
 'C09': " The kernel contracts the pair sum relies on (gradient, non-negativity, support, knots of C08) are re-proved here.",
 'C10': " The initial acceleration is computed before the first step (startup order, re-proved for C19 as dep:C10:solve).",
 'C13': " The first-order consistency contract of C14 (dep:C14:order1) is re-proved here because it consumes gj_solve.",
 'C14': " 'evaluator': SPHEvaluator wires the arrays, equations, kernel and domain it was given into the acceleration evaluator it builds. BOUNDED stand-in (never counted as proved): the real Interpolator with its generated, compiled evaluator against the defining sums evaluated with numpy, through interpolate / move+update / set_interpolation_points / update_particle_arrays, open and periodic (contracts/c14_native_walk.py).",
 'C16': " Ghost set-up with inlet-only and outlet-only configurations. BOUNDED stand-in (never counted as proved): random histories of update calls on the real Inlet/Outlet classes of all five families with random 3-D normals, compared after every update with the bookkeeping of the property (contracts/c16_history_walk.py).",
 'C17': " BOUNDED stand-in (never counted as proved): every class implementing get_spatially_ordered_indices re-ordered repeatedly on the built extensions (typed/strided properties, non-local tags): permutation, whole records, real-first order, exact queries after the following update (contracts/c17_native_walk.py).",
 'C19': " dep:C10:solve: the solver loop computes the time step from the state the step will use.",
 'C20': " Equations that use no arrays keep their names in the group listing.",
}
for _c in CHECKS:
    if _c['id'] in ROUND7:
        _c['text'] = _c['text'] + ROUND7[_c['id']]

# round 8 additions
ROUND8 = {
 'C01': " 'nnpsinit': the domain manager in use (given or default) is told the arrays and the radius scale; set_use_cache(True) invalidates every cache. 'update' now requires the loaded (source, destination) pair to be loaded again after the rebuild (defect repaired: 9223007).",
 'C02': " 'nbrctx': the template's set_context call against the callee's signature. From the property, not the code: every instance of a class reaches the wrapper's type inference, one wrapper per class (not per class name), Python hooks and compiled methods share one object - three OPEN findings with native replays.",
 'C03': " BOUNDED 'hooks': inherited hook methods count as defined.",
 'C04': " Property names containing underscores in the stepper array set-up.",
 'C05': " BOUNDED 'threads': a cached neighbour search filled by all threads with the OpenMP thread count unchanged, raised and lowered after construction (defect repaired: c20b8ce). Solver.reorder_particles updates the neighbour search BEFORE asking for the order (defect repaired: 5c32297); C01's bounded native oracle over all twelve classes and 'nnpsinit' are re-run here.",
 'C06': " clear() forgets strides and the real count, appended constants are copies (defects repaired: 6484c23), copy_properties resolves its default range in particles (a172a57); the model walk also clears and checks that constants are not shared.",
 'C10': " The constructor's store to output_at_times depends on the parameter alone (not on tf).",
 'C13': " Completeness witnesses for badly scaled regular systems.",
 'C14': " Property-level Shepard lemma (mean for EVERY positive weight; open finding: absolute 1e-12 threshold); native walk checks the target h and integer-typed targets; bounded case for a set in the x-z plane (open finding).",
 'C07': " A manager given other arrays starts without ghost buffers (defect repaired: 1b74b84; native scenario: one DomainManager serving a second NNPS).",
 'C16': " Zone length is the extent along the zone NORMAL plus one spacing, against ghost extremes of p.n (defect repaired: 504a948); update_cls defaults, several zones of one kind; every fluid array wired to every zone (open finding).",
 'C17': " _refresh: as many heads as the occupied-cells hook asks for and n_cells equal to that number (BoxSortNNPS inherits the walk); native walk includes BoxSort/CellIndexing and Solver.reorder_particles after update_domain() on a periodic box (defect repaired: 5c32297).",
 'C19': " The h minimum is current only after update_min_max() (ghost state in the model), dt_adapt is read over the REAL particles (defects repaired: 81a3836); replays on compiled particle arrays.",
}
ROUND8['C01'] += " 'cidspace': the per-particle cell-id tables of the z-order classes are indexed by particle ids only (defect repaired: c5c0c8b); one buffer per CURRENT thread after NeighborCache.update (c20b8ce)."
ROUND8['C03'] += " The convergence test skips equation-less sub-groups (defect repaired: 0a55d3f)."
ROUND8['C06'] += " copy_properties refuses a range its source cannot fill (e28ff35). Columns of another element type are converted, not reinterpreted (defect repaired: 8565e71; obligation on the type test + BOUNDED case for the converting branch)."
ROUND8['C10'] += " _get_timestep restores the saved step whenever one is pending (defect repaired: b6b72f1, a round-one finding)."
ROUND8['C15'] = " 'stubs': every call of the Python printf stand-in is one its signature accepts (defect repaired: 4581e7d)."
ROUND8['C20'] = " Equations that read source data but are given no source are rejected (defect repaired: de852a8); a complete problem without a spare property is accepted (c321606); the start_idx / stop_idx names of every group and sub-group exist on each destination (defect repaired: 565f6f3)."
for _c in CHECKS:
    if _c['id'] in ROUND8:
        _c['text'] = _c['text'] + ROUND8[_c['id']]

NOT_APPLICABLE = [
 dict(property_id='C11', reason="round trip runs through numpy.savez/numpy.load/h5py and the compiled ParticleArray constructor; the repository code in between is dict/bytes glue no contract within reach can express (DESIGN.md section 4)"),
 dict(property_id='C12', reason="finite enumeration of scheme options decided by executing scheme code, generating and running; no function-level contract states it (DESIGN.md section 4)"),
 dict(property_id='C18', reason="quantifies over thread interleavings and contains liveness; no thread model in any deductive back end available here (DESIGN.md section 4)"),
]
# properties not yet under a registered check are listed as not applicable
# "pending" until their check lands, so the manifest is valid at all times
PENDING = []
for p in PENDING:
    if p not in [c['id'] for c in CHECKS]:
        NOT_APPLICABLE.append(dict(property_id=p, reason="check not registered yet in this commit (work in progress, see DESIGN.md section 3 for the planned contracts)"))
