#!/bin/bash
# tools/mut.sh <prop> <file-in-repo> <sed-expr> : apply a one-line mutation to
# /repo, run the repo tests + the check, revert.  (development aid)
prop=$1; f=$2; expr=$3
cd /repo && sed -i "$expr" "$f" && git diff --stat | tail -1
/verif/tools/baseline.sh | head -1
cd /verif && ./check $prop ${4:-} 2>&1 | grep -v KNOWN | tail -4
echo "exit=$?"
git -C /repo checkout -- .
