#!/bin/bash
# tools/mutscratch.sh <prop> <file-in-repo> <sed-expr> [check args]
# Applies a one-line mutation to a scratch copy of /repo (outside /repo and
# /verif), runs the pinned tests there and the check against it, removes it.
prop=$1; f=$2; expr=$3; shift 3
D=$(mktemp -d /tmp/pysph_mut.XXXXXX)
rsync -a --exclude .git --exclude build --exclude docs /repo/ "$D/"
( cd "$D" && sed -i "$expr" "$f" && diff <(cd /repo && cat "$f") "$f" | head -4 )
( cd "$D" && /venv/bin/python -m pytest -q -p no:cacheprovider --timeout=900 --continue-on-collection-errors pysph 2>&1 | tail -1 )
cd /verif && PYVC_REPO="$D" ./check $prop "$@" 2>&1 | grep -v KNOWN | tail -3
rm -rf "$D"
