#!/bin/bash
# tools/runall.sh [tier]: run every registered check on /repo, validate evidence
cd /verif
tier=${1:-quick}
rc=0
for p in $(python3 -c "import json; print(' '.join(c['property_id'] for c in json.load(open('MANIFEST.json'))['checks']))"); do
  s=$(date +%s)
  ./check $p --tier $tier > /tmp/runall_$p.log 2>&1; e=$?
  echo "$p exit=$e $(( $(date +%s) - s ))s  $(grep -c '^KNOWN-FINDING' /tmp/runall_$p.log) known  $(tail -1 /tmp/runall_$p.log | cut -c1-120)"
  [ $e -ne 0 ] && rc=1
done
python3-vt - <<'PY'
import json, jsonschema, glob
sch = json.load(open('/root/.vp/EVIDENCE.schema.json'))
jsonschema.validate(json.load(open('MANIFEST.json')), json.load(open('/root/.vp/MANIFEST.schema.json')))
for c in json.load(open('MANIFEST.json'))['checks']:
    ev = json.load(open(c['evidence_file']))
    jsonschema.validate(ev, sch)
    cov = ev['coverage']
    assert cov['obligations'] == cov['discharged'], (c['property_id'], cov['obligations'], cov['discharged'])
print('manifest + evidence valid')
PY
exit $rc
