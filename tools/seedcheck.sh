#!/bin/bash
# tools/seedcheck.sh <seed dir> <prop> [check args] : verify a seeded change
# (patch.diff + demo.py) on a scratch copy and run the property's check on it.
sd=$1; prop=$2; shift 2
D=$(mktemp -d /tmp/pysph_seed.XXXXXX)
rsync -a --exclude .git --exclude build --exclude docs /repo/ "$D/"
echo "== demo on unchanged tree:"; /venv/bin/python "$sd/demo.py" "$D" >/dev/null 2>&1; echo "   exit=$?"
( cd "$D" && patch -p1 -s < "$sd/patch.diff" ) || echo "PATCH FAILED"
echo "== tests on changed tree:"; ( cd "$D" && /venv/bin/python -m pytest -q -p no:cacheprovider --timeout=900 --continue-on-collection-errors 2>&1 | tail -1 )
echo "== demo on changed tree:"; /venv/bin/python "$sd/demo.py" "$D" >/dev/null 2>&1; echo "   exit=$?"
echo "== check on changed tree:"
cd /verif && PYVC_REPO="$D" ./check $prop "$@" 2>&1 | grep -v KNOWN | tail -4
echo "   check exit=${PIPESTATUS[0]}"
rm -rf "$D"
