#!/usr/bin/env python3
"""tools/uncovered.py [Cxx ...]: for each claimed property, the functions of
its anchor files that are NOT under contract in the last evidence (a work
list: realistic changes there go unnoticed)."""
import json, re, ast, os, sys, glob
V = os.path.dirname(os.path.dirname(os.path.abspath(__file__)))
props = [json.loads(l) for l in open(os.path.join(V, 'properties.jsonl'))]
want = set(sys.argv[1:])
allcov = set()
for f in glob.glob(os.path.join(V, 'evidence', '*.json')):
    for e in json.load(open(f))['coverage']['functions_under_contract']:
        allcov.add((e['file'].replace('repo/', ''), e['qualname'].split(' ')[0]))


def functions(path):
    src = open(path).read()
    names = []
    if path.endswith('.py'):
        try:
            tree = ast.parse(src)
        except Exception:
            return names
        for node in tree.body:
            if isinstance(node, ast.FunctionDef):
                names.append(node.name)
            if isinstance(node, ast.ClassDef):
                for n in node.body:
                    if isinstance(n, ast.FunctionDef):
                        names.append(node.name + '.' + n.name)
    elif path.endswith(('.pyx', '.mako')):
        cls = None
        for l in src.split('\n'):
            m = re.match(r'^(cdef )?class (\w+)', l)
            if m:
                cls = m.group(2)
                continue
            m = re.match(r'^(\s*)(?:cpdef|cdef|def)\s+(?:inline\s+)?'
                         r'(?:[\w\[\]\*\s,<>]+?\s+)?\*?(\w+)\s*\(', l)
            if m and 'class' not in l:
                ind = len(m.group(1))
                names.append((cls + '.' + m.group(2)) if ind > 0 and cls
                             else m.group(2))
    return names


for p in props:
    pid = p['id']
    if want and pid not in want:
        continue
    evp = os.path.join(V, 'evidence', pid + '.json')
    if not os.path.exists(evp):
        continue
    own = set((e['file'].replace('repo/', ''), e['qualname'].split(' ')[0])
              for e in json.load(open(evp))['coverage'][
                  'functions_under_contract'])
    print('==', pid)
    files = []
    for fl in p['anchors']['files']:
        path = os.path.join('/repo', fl)
        if os.path.isdir(path):
            files += sorted(glob.glob(path + '/*.py') + glob.glob(path + '/*.pyx'))
        elif os.path.exists(path):
            files.append(path)
    for path in files:
        rel = path[len('/repo/'):]
        names = functions(path)
        if not names:
            continue
        mine = [n for n in names if (rel, n) in own]
        other = [n for n in names if (rel, n) in allcov and (rel, n) not in own]
        unc = [n for n in names if (rel, n) not in allcov]
        print('  %s: %d functions; %d under this check, %d under another; '
              'not: %s' % (rel, len(names), len(mine), len(other),
                           ', '.join(unc)))
